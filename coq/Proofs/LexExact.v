(* LexExact.v — the lexer against a lexical grammar, for every byte string.

   Lex s l: the text s is made of whitespace and token texts (tok_text), each
   token followed by something that cannot extend it (follow_ok), and l lists the
   tokens' types and values.  The lexer returns exactly such an l (lex_sound), every
   such text is lexed to l (lex_complete), and a text with no such reading is refused
   (lex_refuses).  With the two Pratt theorems this gives Compile from bytes:
   accepted iff the text reads, token by token, as a well-precedenced tree. *)
From JM Require Import Model.Base Model.Num Model.Utf8 Model.Value Model.JsonText Model.Lexer Model.Parser Model.Slice
     Model.Functions Model.Interp Model.Api.
From JM Require Import Spec.Grammar.
From JM Require Import gen.Tables Proofs.TablesOk Proofs.ValueFacts Proofs.LexerTotal Proofs.LexView Proofs.Utf8Facts
     Proofs.JsonString Proofs.LexSpell Proofs.ParserTotal Proofs.ParserComplete Proofs.InterpRefine Proofs.LexText Proofs.LexAdj
     Proofs.ParserSound Proofs.ApiFacts.
From JM Require Import Spec.Semantics.
From Coq Require Import ZifyBool ZifyN ZifyNat.

Section WithNum.
Context {NumO : NumOps}.

(* ---- the texts of tokens ---- *)
(* the body of a raw string: no quote except after a backslash, and the body does not
   end in a backslash that would escape the closing quote *)
Fixpoint raw_clean (s : bytes) : bool :=
  match s with
  | [] => true
  | b :: s' =>
    if N.eqb b 39 then false
    else match s' with
         | [] => negb (N.eqb b 92)
         | c1 :: s'' => if N.eqb b 92 && N.eqb c1 39 then raw_clean s'' else raw_clean s'
         end
  end.

(* its value: backslash-quote stands for a quote, everything else for itself *)
Fixpoint raw_unescape (s : bytes) : bytes :=
  match s with
  | [] => []
  | b :: s' =>
    match s' with
    | [] => [b]
    | c1 :: s'' => if N.eqb b 92 && N.eqb c1 39 then 39%N :: raw_unescape s'' else b :: raw_unescape s'
    end
  end.

(* tok_text ty v text: text is a spelling of the token of type ty and value v *)
Inductive tok_text : tokType -> bytes -> bytes -> Prop :=
| TTfixed ty txt : fixed_text ty = Some txt -> tok_text ty txt txt
| TTunknown : tok_text tUnknown [61%N] [61%N]
| TTident name : valid_unquoted name = true -> tok_text tUnquotedIdentifier name name
| TTnumber v : number_lex v = true -> tok_text tNumber v v
| TTquoted body v : clean 34 body = true -> json_unquote body = Some v ->
    tok_text tQuotedIdentifier v (34%N :: body ++ [34%N])
| TTraw body : raw_clean body = true -> tok_text tStringLiteral (raw_unescape body) (39%N :: body ++ [39%N])
| TTlit body : clean 96 body = true -> tok_text tJSONLiteral (replace2 92 96 96 body) (96%N :: body ++ [96%N]).

Inductive Lex : bytes -> list (tokType * bytes) -> Prop :=
| Lex_nil : Lex [] []
| Lex_ws c s l : wsc c -> Lex s l -> Lex (c :: s) l
| Lex_tok ty v text s l : tok_text ty v text -> follow_ok ty s = true -> Lex s l -> Lex (text ++ s) ((ty, v) :: l).

Definition tv (t : token) : tokType * bytes := (ttype t, tvalue t).

Lemma tok_text_nonempty ty v text : tok_text ty v text -> text <> [].
Proof.
  intros H. destruct H as [ty txt H| |name H|v H|body v _ _|body _|body _]; try discriminate.
  - destruct ty; cbn [fixed_text] in H; inversion H; discriminate.
  - destruct name; [discriminate H | discriminate].
  - destruct v; [discriminate H | discriminate].
Qed.

(* ---- completeness: the lexer on a token text followed by anything that cannot extend it ---- *)
Ltac first_char c :=
  cbn [tokenize_loopS app]; unfold nextS at 1; cbn [asuf ap]; rewrite (stepS_ascii c) by reflexivity;
  let r1 := eval vm_compute in (ident_start (Z.of_N c)) in change (ident_start (Z.of_N c)) with r1;
  let r2 := eval vm_compute in (assoc_Z (Z.of_N c) basic_tokens) in change (assoc_Z (Z.of_N c) basic_tokens) with r2;
  cbn iota.

Lemma lexR_unknown f p rest w acc : follow_ok tUnknown rest = true -> lexedR f p [61%N] rest w acc tUnknown [61%N].
Proof.
  intros Hf. unfold lexedR. first_char 61%N. cbn -[tokenize_loopS matchOrElseS].
  destruct (match_single 61 61 tEQ tUnknown p rest eq_refl) as [k Hk].
  { destruct rest; [exact I|]. cbn [follow_ok] in Hf. lia. }
  change 61 with (Z.of_N 61). rewrite Hk. eexists _, _, _. split; [|split; [|split; [|split; [|reflexivity]]]]; [reflexivity | reflexivity | cbn; lia | unfold zlen; cbn; lia].
Qed.

Lemma lexR_quoted_any body v f p rest w acc : 0 <= p -> clean 34 body = true -> json_unquote body = Some v ->
  lexedR f p (34%N :: body ++ [34%N]) rest w acc tQuotedIdentifier v.
Proof.
  intros Hp Hc Hu.
  assert (Hloop : tokenize_loopS (S f) (AS p ((34%N :: body ++ [34%N]) ++ rest) w) acc =
                  tokenize_loopS f (AS (p + zlen (34%N :: body ++ [34%N])) rest 1)
                    (Token tQuotedIdentifier v p (zlen v) :: acc)).
  { first_char 34%N. cbn -[tokenize_loopS consumeQuotedIdentifierS].
    unfold consumeQuotedIdentifierS. change 34 with (Z.of_N 34).
    rewrite <- app_assoc. cbn [app].
    rewrite (consumeUntilS_clean 34 (p + 1) body rest 1) by (first [reflexivity | lia | exact Hc]).
    cbn [bind]. rewrite Hu. cbn [bind ap].
    replace (p + 1 - 1) with p by lia.
    replace (p + 1 + zlen body + 1) with (p + zlen (34%N :: body ++ [34%N])) by (unfold zlen; cbn [length]; rewrite app_length; cbn [length]; lia).
    reflexivity. }
  eexists _, _, _. split; [|split; [|split; [|split; [reflexivity | exact Hloop]]]]; try reflexivity; cbn [tpos tok_pos]; lia.
Qed.

Lemma raw_clean_scan : forall n body rest, (length body <= n)%nat -> raw_clean body = true ->
  raw_scanB (body ++ 39%N :: rest) = Some (raw_unescape body, rest).
Proof.
  induction n as [|n IH]; intros body rest Hn Hc.
  - destruct body; [|cbn in Hn; lia]. reflexivity.
  - destruct body as [|b body]; [reflexivity|]. cbn [raw_clean] in Hc. cbn [app raw_scanB].
    destruct (N.eqb b 39) eqn:E39; [discriminate|].
    destruct body as [|c1 body'].
    + cbn [app]. apply negb_true_iff in Hc. rewrite Hc. cbn [andb]. cbn [raw_scanB]. cbn. reflexivity.
    + cbn [app raw_unescape]. destruct (N.eqb b 92 && N.eqb c1 39) eqn:E.
      * rewrite (IH body' rest) by (auto; cbn [length] in Hn; lia). reflexivity.
      * change (c1 :: body' ++ 39%N :: rest) with ((c1 :: body') ++ 39%N :: rest).
        rewrite (IH (c1 :: body') rest) by (auto; cbn [length] in *; lia). reflexivity.
Qed.

Lemma lexR_raw_any body f p rest w acc : 0 <= p -> raw_clean body = true ->
  lexedR f p (39%N :: body ++ [39%N]) rest w acc tStringLiteral (raw_unescape body).
Proof.
  intros Hp Hok.
  assert (Hloop : tokenize_loopS (S f) (AS p ((39%N :: body ++ [39%N]) ++ rest) w) acc =
                  tokenize_loopS f (AS (p + zlen (39%N :: body ++ [39%N])) rest 1)
                    (Token tStringLiteral (raw_unescape body) (p + 1) (zlen (raw_unescape body)) :: acc)).
  { first_char 39%N. cbn -[tokenize_loopS consumeRawStringLiteralS].
    rewrite <- app_assoc. cbn [app].
    rewrite consumeRawS_scan by lia. rewrite raw_scan_bytes by lia.
    rewrite (raw_clean_scan (length body)) by (auto; lia). cbn [bind].
    replace (p + 1 + zlen (body ++ 39%N :: rest) - zlen rest) with (p + zlen (39%N :: body ++ [39%N]))
      by (unfold zlen; cbn [length]; rewrite !app_length; cbn [length]; lia).
    reflexivity. }
  eexists _, _, _. split; [|split; [|split; [|split; [reflexivity | exact Hloop]]]]; try reflexivity; cbn [tpos tok_pos]; lia.
Qed.

Lemma lexR_literal_any body f p rest w acc : 0 <= p -> clean 96 body = true ->
  lexedR f p (96%N :: body ++ [96%N]) rest w acc tJSONLiteral (replace2 92 96 96 body).
Proof.
  intros Hp Hok.
  assert (Hloop : tokenize_loopS (S f) (AS p ((96%N :: body ++ [96%N]) ++ rest) w) acc =
                  tokenize_loopS f (AS (p + zlen (96%N :: body ++ [96%N])) rest 1)
                    (Token tJSONLiteral (replace2 92 96 96 body) (p + 1) (zlen (replace2 92 96 96 body)) :: acc)).
  { first_char 96%N. cbn -[tokenize_loopS consumeLiteralS].
    unfold consumeLiteralS. change 96 with (Z.of_N 96) at 1.
    rewrite <- app_assoc. cbn [app].
    rewrite (consumeUntilS_clean 96 (p + 1) body rest 1) by (first [reflexivity | lia | exact Hok]).
    cbn [bind ap].
    replace (p + 1 + zlen body + 1) with (p + zlen (96%N :: body ++ [96%N])) by (unfold zlen; cbn [length]; rewrite app_length; cbn [length]; lia).
    reflexivity. }
  eexists _, _, _. split; [|split; [|split; [|split; [reflexivity | exact Hloop]]]]; try reflexivity; cbn [tpos tok_pos]; lia.
Qed.

Lemma lex_tok_text ty v text : tok_text ty v text -> forall rest f p w acc, follow_ok ty rest = true -> 0 <= p ->
  lexedR f p text rest w acc ty v.
Proof.
  intros H rest f p w acc Hfo Hp. destruct H as [ty txt H| |name H|v H|body v Hc Hu|body Hc|body Hc].
  - apply lexR_fixed; assumption.
  - apply lexR_unknown; assumption.
  - apply lexR_unquoted; assumption.
  - apply lexR_number_lex; assumption.
  - apply lexR_quoted_any; assumption.
  - apply lexR_raw_any; assumption.
  - apply lexR_literal_any; assumption.
Qed.

Lemma lex_loop_complete : forall s l, Lex s l -> forall f p w acc, 0 <= p -> (length s < f)%nat ->
  exists out, tokenize_loopS f (AS p s w) acc = Ok (rev acc ++ out ++ [Token tEOF [] (p + zlen s) 0]) /\ map tv out = l.
Proof.
  induction 1 as [|c s l Hc _ IH|ty v text s l Ht Hfo _ IH]; intros f p w acc Hp Hf.
  - destruct f as [|f]; [cbn [length] in Hf; lia|]. exists []. rewrite lex_eof. cbn [rev app map]. unfold zlen. cbn [length]. rewrite Z.add_0_r. split; reflexivity.
  - destruct f as [|f]; [cbn [length] in Hf; lia|]. rewrite (lex_space c _ _ _ _ _ Hc).
    destruct (IH f (p + 1) 1 acc ltac:(lia) ltac:(cbn [length] in Hf; lia)) as [out [Ho Hm]]. exists out. rewrite Ho. split; [|exact Hm].
    replace (p + 1 + zlen s) with (p + zlen (c :: s)) by (unfold zlen; cbn [length]; lia). reflexivity.
  - destruct f as [|f]; [lia|].
    destruct (lex_tok_text ty v text Ht s f p w acc Hfo Hp) as [tok [p' [k [T1 [T2 [T3 [Hp' Hloop]]]]]]]. rewrite Hloop.
    pose proof (tok_text_nonempty _ _ _ Ht) as Hne.
    assert (Hlen : (length s < f)%nat) by (rewrite app_length in Hf; destruct text; [congruence | cbn [length] in Hf; lia]).
    destruct (IH f p' k (tok :: acc) ltac:(pose proof (Zle_0_nat (length text)); unfold zlen in *; lia) Hlen) as [out [Ho Hm]].
    exists (tok :: out). rewrite Ho. cbn [rev map]. rewrite <- !app_assoc. cbn [app]. split.
    + replace (p' + zlen s) with (p + zlen (text ++ s)) by (subst p'; unfold zlen; rewrite app_length; lia). reflexivity.
    + unfold tv at 1. rewrite T1, T2, Hm. reflexivity.
Qed.

Theorem lex_complete e l : Lex e l ->
  exists out, tokenize e = Ok (out ++ [Token tEOF [] (zlen e) 0]) /\ map tv out = l.
Proof.
  intros H. rewrite tokenize_view. unfold tokenizeS.
  destruct (lex_loop_complete e l H (S (S (length e))) 0 0 [] ltac:(lia) ltac:(lia)) as [out [Ho Hm]].
  exists out. rewrite Ho. cbn [rev app]. rewrite Z.add_0_l. split; [reflexivity | exact Hm].
Qed.

(* ---- soundness: whatever the lexer does on a non-empty input, it skips a whitespace
   character, or reads a token text followed by something that cannot extend it, or fails ---- *)
Lemma scan_untilB_inv endr : forall n s body rest, (length s <= n)%nat -> scan_untilB endr s = Some (body, rest) ->
  s = body ++ endr :: rest /\ clean endr body = true.
Proof.
  induction n as [|n IH]; intros s body rest Hn Hs.
  - destruct s; [discriminate | cbn in Hn; lia].
  - destruct s as [|b s']; [discriminate|]. cbn [scan_untilB] in Hs.
    destruct (N.eqb b endr) eqn:Ee.
    + inversion Hs; subst. apply N.eqb_eq in Ee. subst b. split; reflexivity.
    + destruct (N.eqb b 92) eqn:E92.
      * destruct s' as [|c1 s'']; [discriminate|].
        destruct (scan_untilB endr s'') as [[b0 r0]|] eqn:Es; [|discriminate]. cbn [map_fst] in Hs. inversion Hs; subst.
        destruct (IH s'' b0 rest ltac:(cbn [length] in Hn; lia) Es) as [-> Hc]. split; [reflexivity|].
        cbn [clean]. rewrite Ee, E92. exact Hc.
      * destruct (scan_untilB endr s') as [[b0 r0]|] eqn:Es; [|discriminate]. cbn [map_fst] in Hs. inversion Hs; subst.
        destruct (IH s' b0 rest ltac:(cbn [length] in Hn; lia) Es) as [-> Hc]. split; [reflexivity|].
        cbn [clean]. rewrite Ee, E92. exact Hc.
Qed.

Lemma raw_scanB_inv : forall n s v rest, (length s <= n)%nat -> raw_scanB s = Some (v, rest) ->
  exists body, s = body ++ 39%N :: rest /\ raw_clean body = true /\ v = raw_unescape body.
Proof.
  induction n as [|n IH]; intros s v rest Hn Hs.
  - destruct s; [discriminate | cbn in Hn; lia].
  - destruct s as [|b s']; [discriminate|]. cbn [raw_scanB] in Hs.
    destruct (N.eqb b 39) eqn:E39.
    + inversion Hs; subst. apply N.eqb_eq in E39. subst b. exists []. repeat split; reflexivity.
    + destruct s' as [|c1 s'']; [discriminate|].
      destruct (N.eqb b 92 && N.eqb c1 39) eqn:E.
      * destruct (raw_scanB s'') as [[v0 r0]|] eqn:Es; [|discriminate]. cbn [map_fst] in Hs. inversion Hs; subst.
        destruct (IH s'' v0 rest ltac:(cbn [length] in Hn; lia) Es) as [body [-> [Hc ->]]].
        exists (b :: c1 :: body). split; [reflexivity|]. split.
        -- cbn [raw_clean]. rewrite E39, E. exact Hc.
        -- cbn [raw_unescape]. rewrite E. reflexivity.
      * destruct (raw_scanB (c1 :: s'')) as [[v0 r0]|] eqn:Es; [|discriminate]. cbn [map_fst] in Hs. inversion Hs; subst.
        destruct (IH (c1 :: s'') v0 rest ltac:(cbn [length] in *; lia) Es) as [body [Hb [Hc ->]]].
        exists (b :: body). split; [cbn [app]; rewrite Hb; reflexivity|].
        destruct body as [|d body'].
        -- (* the next character is the closing quote: then b is not a backslash *)
           cbn [app] in Hb. inversion Hb; subst. split.
           ++ cbn [raw_clean]. rewrite E39. rewrite N.eqb_refl in E. rewrite andb_true_r in E. rewrite E. reflexivity.
           ++ reflexivity.
        -- cbn [app] in Hb. inversion Hb; subst. split.
           ++ cbn [raw_clean]. rewrite E39, E. exact Hc.
           ++ cbn [raw_unescape]. rewrite E. reflexivity.
Qed.

Fixpoint span_digit (s : bytes) : bytes * bytes :=
  match s with
  | c :: r => if is_digit c then let '(a, b) := span_digit r in (c :: a, b) else ([], s)
  | [] => ([], [])
  end.
Lemma span_digit_spec s : let '(a, b) := span_digit s in s = a ++ b /\ forallb is_digit a = true /\ follow_ok tNumber b = true.
Proof.
  induction s as [|c r IH]; [cbn; auto|]. cbn [span_digit]. destruct (is_digit c) eqn:E.
  - destruct (span_digit r) as [a b]. destruct IH as [-> [H1 H2]]. cbn [app forallb]. rewrite E, H1. auto.
  - cbn [app forallb follow_ok]. rewrite E. auto.
Qed.

(* a character that begins no token and is not whitespace: the error points into it *)
Definition no_token_start (r : Z) : Prop :=
  is_alpha_Z r = false /\ ~ (48 <= r <= 57) /\ r <> eof /\
  Forall (fun c => r <> c) [46; 42; 44; 58; 123; 125; 93; 40; 41; 64; 45; 91; 34; 39; 96; 124; 60; 62; 33; 61; 38; 32; 9; 10; 13].

Lemma step_error r a1 f a acc :
  nextS a = (r, a1) -> -1 <= r <= 1114111 -> no_token_start r ->
  tokenize_loopS (S f) a acc = Err (ESyntax (ap a1 - 1)).
Proof.
  intros Hn Hr [Ha [Hd [He Hall]]].
  repeat (match goal with H : Forall _ (_ :: _) |- _ => inversion H; clear H; subst end).
  cbn [tokenize_loopS]. rewrite Hn. rewrite ident_start_ok by exact Hr. rewrite Ha.
  rewrite basic_tokens_ok.
  assert (r =? 46 = false) as -> by lia. assert (r =? 42 = false) as -> by lia. assert (r =? 44 = false) as -> by lia.
  assert (r =? 58 = false) as -> by lia. assert (r =? 123 = false) as -> by lia. assert (r =? 125 = false) as -> by lia.
  assert (r =? 93 = false) as -> by lia. assert (r =? 40 = false) as -> by lia. assert (r =? 41 = false) as -> by lia.
  assert (r =? 64 = false) as -> by lia.
  assert ((r =? 45) || ((48 <=? r) && (r <=? 57)) = false) as -> by lia.
  assert (r =? 91 = false) as -> by lia. assert (r =? 34 = false) as -> by lia. assert (r =? 39 = false) as -> by lia.
  assert (r =? 96 = false) as -> by lia. assert (r =? 124 = false) as -> by lia. assert (r =? 60 = false) as -> by lia.
  assert (r =? 62 = false) as -> by lia. assert (r =? 33 = false) as -> by lia. assert (r =? 61 = false) as -> by lia.
  assert (r =? 38 = false) as -> by lia.
  assert (r =? eof = false) as -> by (apply Z.eqb_neq; assumption).
  assert (is_white r = false) as ->.
  { rewrite white_space_ok. assert (r =? 32 = false) as -> by lia. assert (r =? 9 = false) as -> by lia.
    assert (r =? 10 = false) as -> by lia. assert (r =? 13 = false) as -> by lia. reflexivity. }
  reflexivity.
Qed.

(* why the lexer stops at the remaining input s (at position p), and the error it reports:
   a character that begins no token — the offset is that of the character's last byte; a
   quotation mark, apostrophe or backtick that is never closed — the offset is the end of the
   input; a quoted identifier whose body is not a JSON string — a non-syntax error *)
Definition stuck (p : Z) (s : bytes) (er : err) : Prop :=
  (exists r k s', stepS s = (r, k, s') /\ no_token_start r /\ er = ESyntax (p + k - 1)) \/
  (exists s0, (s = 34%N :: s0 /\ scan_untilB 34 s0 = None \/ s = 39%N :: s0 /\ raw_scanB s0 = None \/
               s = 96%N :: s0 /\ scan_untilB 96 s0 = None) /\ er = ESyntax (p + zlen s)) \/
  (exists body rest, s = 34%N :: body ++ 34%N :: rest /\ clean 34 body = true /\ json_unquote body = None /\ er = ECompileOther).

Definition StepOK (p : Z) (s : bytes) : Prop :=
  (exists c s', s = c :: s' /\ wsc c) \/
  (exists ty v text rest, s = text ++ rest /\ tok_text ty v text /\ follow_ok ty rest = true) \/
  (exists err, stuck p s err /\ forall f w acc, tokenize_loopS (S f) (AS p s w) acc = Err err).

Ltac tokB ty v text rest := right; left; exists ty, v, text, rest.
Ltac fixedB ty text rest := tokB ty text text rest; split; [reflexivity | split; [apply TTfixed; reflexivity | try reflexivity]].

Lemma two_char (b second : N) s0 (tyS tyM : tokType) :
  (forall rest, follow_ok tyS rest = match rest with [] => true | c :: _ => negb (N.eqb c second) end) ->
  (forall rest, follow_ok tyM rest = true) ->
  (exists rest, b :: s0 = [b; second] ++ rest /\ follow_ok tyM rest = true) \/
  (exists rest, b :: s0 = [b] ++ rest /\ follow_ok tyS rest = true).
Proof.
  intros HS HM. destruct s0 as [|c s1].
  - right. exists []. split; [reflexivity|]. rewrite HS. reflexivity.
  - destruct (N.eqb c second) eqn:E.
    + left. apply N.eqb_eq in E. subst c. exists s1. split; [reflexivity | apply HM].
    + right. exists (c :: s1). split; [reflexivity|]. rewrite HS, E. reflexivity.
Qed.

Lemma step_cases b s0 p : 0 <= p -> StepOK p (b :: s0).
Proof.
  intros Hp. unfold StepOK.
  destruct (N.ltb b 128) eqn:Hb.
  2:{ (* a byte >= 128 begins a rune >= 128 (or is invalid): no token starts with it *)
      right; right. pose proof (stepS_first b s0) as F. pose proof (stepS_range (b :: s0)) as R.
      destruct (stepS (b :: s0)) as [[r k] s'] eqn:Es. destruct F as [[Hb' _]|[_ Hr]]; [congruence|].
      assert (Hnt : no_token_start r).
      { split; [unfold is_alpha_Z; lia|]. split; [lia|]. split; [unfold eof; lia|]. repeat constructor; lia. }
      exists (ESyntax (p + k - 1)). split; [left; exists r, k, s'; auto|]. intros f w acc.
      rewrite (step_error r (AS (p + k) s' k) f _ acc); [reflexivity | | exact R | exact Hnt].
      unfold nextS. cbn [asuf ap]. rewrite Es. reflexivity. }
  (* whitespace *)
  destruct (N.eqb_spec b 32) as [->|N32]; [left; eexists _, _; split; [reflexivity | left; reflexivity]|].
  destruct (N.eqb_spec b 9) as [->|N9]; [left; eexists _, _; split; [reflexivity | right; left; reflexivity]|].
  destruct (N.eqb_spec b 10) as [->|N10]; [left; eexists _, _; split; [reflexivity | right; right; left; reflexivity]|].
  destruct (N.eqb_spec b 13) as [->|N13]; [left; eexists _, _; split; [reflexivity | right; right; right; reflexivity]|].
  (* identifiers *)
  destruct (is_alpha_ b) eqn:Halpha.
  { pose proof (span_alnum_spec s0) as Sp. destruct (span_alnum s0) as [a r]. destruct Sp as [-> [Ha Hst]].
    tokB tUnquotedIdentifier (b :: a) (b :: a) r. split; [reflexivity|]. split.
    - apply TTident. cbn [valid_unquoted]. rewrite Halpha, Ha. reflexivity.
    - destruct r as [|c r']; [reflexivity|]. cbn [follow_ok]. cbn [stops] in Hst. rewrite Hst. reflexivity. }
  (* one-character tokens of the table *)
  destruct (N.eqb_spec b 46) as [->|N46]; [fixedB tDot [46%N] s0; destruct s0; reflexivity|].
  destruct (N.eqb_spec b 42) as [->|N42]; [fixedB tStar [42%N] s0; destruct s0; reflexivity|].
  destruct (N.eqb_spec b 44) as [->|N44]; [fixedB tComma [44%N] s0; destruct s0; reflexivity|].
  destruct (N.eqb_spec b 58) as [->|N58]; [fixedB tColon [58%N] s0; destruct s0; reflexivity|].
  destruct (N.eqb_spec b 123) as [->|N123]; [fixedB tLbrace [123%N] s0; destruct s0; reflexivity|].
  destruct (N.eqb_spec b 125) as [->|N125]; [fixedB tRbrace [125%N] s0; destruct s0; reflexivity|].
  destruct (N.eqb_spec b 93) as [->|N93]; [fixedB tRbracket [93%N] s0; destruct s0; reflexivity|].
  destruct (N.eqb_spec b 40) as [->|N40]; [fixedB tLparen [40%N] s0; destruct s0; reflexivity|].
  destruct (N.eqb_spec b 41) as [->|N41]; [fixedB tRparen [41%N] s0; destruct s0; reflexivity|].
  destruct (N.eqb_spec b 64) as [->|N64]; [fixedB tCurrent [64%N] s0; destruct s0; reflexivity|].
  (* numbers *)
  destruct ((N.eqb b 45) || is_digit b) eqn:Hnum.
  { pose proof (span_digit_spec s0) as Sp. destruct (span_digit s0) as [a r]. destruct Sp as [-> [Ha Hfo]].
    tokB tNumber (b :: a) (b :: a) r. split; [reflexivity|]. split; [|exact Hfo].
    apply TTnumber. cbn [number_lex]. rewrite Hnum, Ha. reflexivity. }
  (* brackets *)
  destruct (N.eqb_spec b 91) as [->|N91].
  { destruct s0 as [|c s1]; [fixedB tLbracket [91%N] (@nil N)|].
    destruct (N.eqb_spec c 63) as [->|C63]; [fixedB tFilter [91%N; 63%N] s1; destruct s1; reflexivity|].
    destruct (N.eqb_spec c 93) as [->|C93]; [fixedB tFlatten [91%N; 93%N] s1; destruct s1; reflexivity|].
    fixedB tLbracket [91%N] (c :: s1). cbn [follow_ok]. lia. }
  (* quoted identifiers *)
  destruct (N.eqb_spec b 34) as [->|N34].
  { destruct (scan_untilB 34 s0) as [[body rest]|] eqn:Es.
    - destruct (scan_untilB_inv 34 (length s0) s0 body rest (Nat.le_refl _) Es) as [-> Hc].
      destruct (json_unquote body) as [v|] eqn:Eu.
      + tokB tQuotedIdentifier v (34%N :: body ++ [34%N]) rest. split; [cbn [app]; rewrite <- app_assoc; reflexivity|].
        split; [apply TTquoted; assumption | destruct rest; reflexivity].
      + right; right. exists ECompileOther. split; [right; right; exists body, rest; auto|]. intros f w acc.
        first_char 34%N. cbn -[tokenize_loopS consumeQuotedIdentifierS].
        unfold consumeQuotedIdentifierS. change 34 with (Z.of_N 34).
        rewrite (consumeUntilS_clean 34 (p + 1) body rest 1) by (first [reflexivity | lia | exact Hc]).
        cbn [bind]. rewrite Eu. reflexivity.
    - right; right. exists (ESyntax (p + zlen (34%N :: s0))). split; [right; left; exists s0; auto|]. intros f w acc.
      first_char 34%N. cbn -[tokenize_loopS consumeQuotedIdentifierS].
      unfold consumeQuotedIdentifierS. rewrite (consumeUntilS_scan 34) by lia. change 34 with (Z.of_N 34).
      rewrite (scan_until_bytes 34) by (first [reflexivity | lia]). rewrite Es. cbn [bind].
      replace (p + 1 + zlen s0) with (p + zlen (34%N :: s0)) by (unfold zlen; cbn [length]; lia). reflexivity. }
  (* raw strings *)
  destruct (N.eqb_spec b 39) as [->|N39].
  { destruct (raw_scanB s0) as [[v rest]|] eqn:Es.
    - destruct (raw_scanB_inv (length s0) s0 v rest (Nat.le_refl _) Es) as [body [-> [Hc ->]]].
      tokB tStringLiteral (raw_unescape body) (39%N :: body ++ [39%N]) rest. split; [cbn [app]; rewrite <- app_assoc; reflexivity|].
      split; [apply TTraw; assumption | destruct rest; reflexivity].
    - right; right. exists (ESyntax (p + zlen (39%N :: s0))). split; [right; left; exists s0; auto|]. intros f w acc.
      first_char 39%N. cbn -[tokenize_loopS consumeRawStringLiteralS].
      rewrite consumeRawS_scan by lia. rewrite raw_scan_bytes by lia. rewrite Es. cbn [bind].
      replace (p + 1 + zlen s0) with (p + zlen (39%N :: s0)) by (unfold zlen; cbn [length]; lia). reflexivity. }
  (* JSON literals *)
  destruct (N.eqb_spec b 96) as [->|N96].
  { destruct (scan_untilB 96 s0) as [[body rest]|] eqn:Es.
    - destruct (scan_untilB_inv 96 (length s0) s0 body rest (Nat.le_refl _) Es) as [-> Hc].
      tokB tJSONLiteral (replace2 92 96 96 body) (96%N :: body ++ [96%N]) rest. split; [cbn [app]; rewrite <- app_assoc; reflexivity|].
      split; [apply TTlit; assumption | destruct rest; reflexivity].
    - right; right. exists (ESyntax (p + zlen (96%N :: s0))). split; [right; left; exists s0; auto|]. intros f w acc.
      first_char 96%N. cbn -[tokenize_loopS consumeLiteralS].
      unfold consumeLiteralS. rewrite (consumeUntilS_scan 96) by lia. change 96 with (Z.of_N 96).
      rewrite (scan_until_bytes 96) by (first [reflexivity | lia]). rewrite Es. cbn [bind].
      replace (p + 1 + zlen s0) with (p + zlen (96%N :: s0)) by (unfold zlen; cbn [length]; lia). reflexivity. }
  (* operators of one or two characters *)
  destruct (N.eqb_spec b 124) as [->|N124].
  { destruct (two_char 124 124 s0 tPipe tOr) as [[rest [-> Hf]]|[rest [-> Hf]]];
      [intros [|? ?]; reflexivity | intros [|? ?]; reflexivity | fixedB tOr [124%N; 124%N] rest; exact Hf | fixedB tPipe [124%N] rest; exact Hf]. }
  destruct (N.eqb_spec b 60) as [->|N60].
  { destruct (two_char 60 61 s0 tLT tLTE) as [[rest [-> Hf]]|[rest [-> Hf]]];
      [intros [|? ?]; reflexivity | intros [|? ?]; reflexivity | fixedB tLTE [60%N; 61%N] rest; exact Hf | fixedB tLT [60%N] rest; exact Hf]. }
  destruct (N.eqb_spec b 62) as [->|N62].
  { destruct (two_char 62 61 s0 tGT tGTE) as [[rest [-> Hf]]|[rest [-> Hf]]];
      [intros [|? ?]; reflexivity | intros [|? ?]; reflexivity | fixedB tGTE [62%N; 61%N] rest; exact Hf | fixedB tGT [62%N] rest; exact Hf]. }
  destruct (N.eqb_spec b 33) as [->|N33].
  { destruct (two_char 33 61 s0 tNot tNE) as [[rest [-> Hf]]|[rest [-> Hf]]];
      [intros [|? ?]; reflexivity | intros [|? ?]; reflexivity | fixedB tNE [33%N; 61%N] rest; exact Hf | fixedB tNot [33%N] rest; exact Hf]. }
  destruct (N.eqb_spec b 38) as [->|N38].
  { destruct (two_char 38 38 s0 tExpref tAnd) as [[rest [-> Hf]]|[rest [-> Hf]]];
      [intros [|? ?]; reflexivity | intros [|? ?]; reflexivity | fixedB tAnd [38%N; 38%N] rest; exact Hf | fixedB tExpref [38%N] rest; exact Hf]. }
  destruct (N.eqb_spec b 61) as [->|N61].
  { destruct (two_char 61 61 s0 tUnknown tEQ) as [[rest [-> Hf]]|[rest [-> Hf]]];
      [intros [|? ?]; reflexivity | intros [|? ?]; reflexivity | fixedB tEQ [61%N; 61%N] rest; exact Hf |].
    tokB tUnknown [61%N] [61%N] rest. split; [reflexivity | split; [apply TTunknown | exact Hf]]. }
  (* anything else *)
  right; right.
  assert (Hnt : no_token_start (Z.of_N b)).
  { split; [rewrite is_alpha_Z_N; exact Halpha|]. split; [unfold is_digit in Hnum; lia|]. split; [unfold eof; lia|].
    unfold is_digit in Hnum. repeat constructor; lia. }
  exists (ESyntax (p + 1 - 1)). split; [left; exists (Z.of_N b), 1, s0; split; [apply stepS_ascii; exact Hb | auto]|]. intros f w acc.
  rewrite (step_error (Z.of_N b) (AS (p + 1) s0 1) f _ acc); [reflexivity | | lia | exact Hnt].
  unfold nextS. cbn [asuf ap]. rewrite (stepS_ascii b s0 Hb). reflexivity.
Qed.

Lemma lex_loop_sound : forall f s p w acc out, 0 <= p ->
  tokenize_loopS f (AS p s w) acc = Ok out ->
  exists l, out = rev acc ++ l ++ [Token tEOF [] (p + zlen s) 0] /\ Lex s (map tv l).
Proof.
  induction f as [|f IH]; intros s p w acc out Hp H; [discriminate|].
  destruct s as [|b s0].
  - rewrite lex_eof in H. inversion H; subst. exists []. cbn [rev app map]. unfold zlen. cbn [length]. rewrite Z.add_0_r.
    split; [reflexivity | constructor].
  - destruct (step_cases b s0 p Hp) as [[c [s' [Hs Hc]]]|[[ty [v [text [rest [Hs [Ht Hfo]]]]]]|Herr]].
    + inversion Hs; subst c s'. rewrite (lex_space b _ _ _ _ _ Hc) in H.
      destruct (IH s0 (p + 1) 1 acc out ltac:(lia) H) as [l [Ho HL]]. exists l. split.
      * rewrite Ho. replace (p + 1 + zlen s0) with (p + zlen (b :: s0)) by (unfold zlen; cbn [length]; lia). reflexivity.
      * apply Lex_ws; assumption.
    + rewrite Hs in H. destruct (lex_tok_text ty v text Ht rest f p w acc Hfo Hp) as [tok [p' [k [T1 [T2 [T3 [Hp' Hloop]]]]]]].
      rewrite Hloop in H.
      destruct (IH rest p' k (tok :: acc) out ltac:(pose proof (Zle_0_nat (length text)); unfold zlen in *; lia) H) as [l [Ho HL]].
      exists (tok :: l). split.
      * rewrite Ho. cbn [rev]. rewrite <- !app_assoc. cbn [app].
        replace (p' + zlen rest) with (p + zlen (b :: s0)) by (rewrite Hs; subst p'; unfold zlen; rewrite app_length; lia). reflexivity.
      * rewrite Hs. cbn [map]. unfold tv at 1. rewrite T1, T2. apply Lex_tok; assumption.
    + destruct Herr as [err [_ He]]. rewrite (He f w acc) in H. discriminate.
Qed.

Theorem lex_sound e ts : tokenize e = Ok ts ->
  exists out, ts = out ++ [Token tEOF [] (zlen e) 0] /\ Lex e (map tv out).
Proof.
  rewrite tokenize_view. unfold tokenizeS. intros H.
  destruct (lex_loop_sound _ e 0 0 [] ts ltac:(lia) H) as [l [Ho HL]]. exists l. cbn [rev app] in Ho. rewrite Z.add_0_l in Ho. split; assumption.
Qed.

(* the lexer accepts exactly the texts that have a reading, and returns that reading *)
Theorem lex_exact e l :
  Lex e l <-> exists out, tokenize e = Ok (out ++ [Token tEOF [] (zlen e) 0]) /\ map tv out = l.
Proof.
  split; [apply lex_complete|]. intros [out [Ht Hm]]. destruct (lex_sound e _ Ht) as [out' [Heq HL]].
  apply app_inj_tail in Heq as [-> _]. rewrite Hm in HL. exact HL.
Qed.

(* a text with no reading is refused (the lexer never panics and never runs out of fuel) *)
Theorem lex_refuses e : (forall l, ~ Lex e l) <-> exists err, tokenize e = Err err.
Proof.
  split.
  - intros Hno. pose proof (tokenize_total e) as T. destruct (tokenize e) as [ts|err| |] eqn:Et.
    + destruct (lex_sound e ts Et) as [out [_ HL]]. destruct (Hno _ HL).
    + exists err. reflexivity.
    + destruct T.
    + destruct T.
  - intros [err He] l HL. destruct (lex_complete e l HL) as [out [Ho _]]. congruence.
Qed.

(* ---- where a lexical error is reported ---- *)
(* LexTo s l r: s reads as the tokens l up to its remainder r *)
Inductive LexTo : bytes -> list (tokType * bytes) -> bytes -> Prop :=
| LexTo_stop s : LexTo s [] s
| LexTo_ws c s l r : wsc c -> LexTo s l r -> LexTo (c :: s) l r
| LexTo_tok ty v text s l r : tok_text ty v text -> follow_ok ty s = true -> LexTo s l r -> LexTo (text ++ s) ((ty, v) :: l) r.

Lemma LexTo_split s l r : LexTo s l r -> exists pre, s = pre ++ r.
Proof.
  induction 1 as [s|c s l r _ _ [pre ->]|ty v text s l r _ _ _ [pre ->]].
  - exists []. reflexivity.
  - exists (c :: pre). reflexivity.
  - exists (text ++ pre). rewrite app_assoc. reflexivity.
Qed.

Lemma LexTo_all s l : LexTo s l [] <-> Lex s l.
Proof.
  split.
  - intros H. remember [] as r eqn:Er. induction H as [s|c s l r Hc _ IH|ty v text s l r Ht Hf _ IH]; subst.
    + constructor.
    + apply Lex_ws; auto.
    + apply Lex_tok; auto.
  - induction 1 as [|c s l Hc _ IH|ty v text s l Ht Hf _ IH]; [apply LexTo_stop | apply LexTo_ws; auto | apply LexTo_tok; auto].
Qed.

Lemma lex_loop_err : forall f s p w acc er, 0 <= p ->
  tokenize_loopS f (AS p s w) acc = Err er ->
  exists l r, LexTo s l r /\ r <> [] /\ stuck (p + zlen s - zlen r) r er.
Proof.
  induction f as [|f IH]; intros s p w acc er Hp H; [discriminate|].
  destruct s as [|b s0]; [rewrite lex_eof in H; discriminate|].
  destruct (step_cases b s0 p Hp) as [[c [s' [Hs Hc]]]|[[ty [v [text [rest [Hs [Ht Hfo]]]]]]|[er' [Hst He]]]].
  - inversion Hs; subst c s'. rewrite (lex_space b _ _ _ _ _ Hc) in H.
    destruct (IH s0 (p + 1) 1 acc er ltac:(lia) H) as [l [r [HL [Hr Hs']]]]. exists l, r. split; [apply LexTo_ws; assumption|]. split; [exact Hr|].
    replace (p + zlen (b :: s0) - zlen r) with (p + 1 + zlen s0 - zlen r) by (unfold zlen; cbn [length]; lia). exact Hs'.
  - rewrite Hs in H. destruct (lex_tok_text ty v text Ht rest f p w acc Hfo Hp) as [tok [p' [k [T1 [T2 [T3 [Hp' Hloop]]]]]]].
    rewrite Hloop in H.
    destruct (IH rest p' k (tok :: acc) er ltac:(pose proof (Zle_0_nat (length text)); unfold zlen in *; lia) H) as [l [r [HL [Hr Hs']]]].
    exists ((ty, v) :: l), r. split; [rewrite Hs; apply LexTo_tok; assumption|]. split; [exact Hr|].
    replace (p + zlen (b :: s0) - zlen r) with (p' + zlen rest - zlen r) by (rewrite Hs; subst p'; unfold zlen; rewrite app_length; lia). exact Hs'.
  - rewrite (He f w acc) in H. inversion H; subst er'. exists [], (b :: s0). split; [apply LexTo_stop|]. split; [discriminate|].
    replace (p + zlen (b :: s0) - zlen (b :: s0)) with p by lia. exact Hst.
Qed.

(* an error of the lexer is reported where the reading stops: the text before the
   remainder r reads as tokens, r is not empty, and the error says why r cannot be read on *)
Theorem lex_error_located e er : tokenize e = Err er ->
  exists l r, LexTo e l r /\ r <> [] /\ stuck (zlen e - zlen r) r er.
Proof.
  rewrite tokenize_view. unfold tokenizeS. intros H.
  destruct (lex_loop_err _ e 0 0 [] er ltac:(lia) H) as [l [r [HL [Hr Hs]]]]. exists l, r. rewrite Z.add_0_l in Hs. auto.
Qed.

(* in particular the offset of a lexical syntax error lies in the character that cannot be
   read (its last byte), or is the end of the input for a delimiter that is never closed *)
Corollary lex_error_offset e o : tokenize e = Err (ESyntax o) ->
  exists pre r, e = pre ++ r /\ r <> [] /\
    ((exists k, o = zlen pre + k - 1 /\ 1 <= k <= zlen r /\ snd (fst (stepS r)) = k) \/ o = zlen e).
Proof.
  intros H. destruct (lex_error_located e _ H) as [l [r [HL [Hr Hst]]]]. destruct (LexTo_split _ _ _ HL) as [pre ->].
  exists pre, r. split; [reflexivity|]. split; [exact Hr|].
  replace (zlen (pre ++ r) - zlen r) with (zlen pre) in Hst by (unfold zlen; rewrite app_length; lia).
  destruct Hst as [[ru [k [s' [Hstep [_ He]]]]]|[[s0 [_ He]]|[body [rest [_ [_ [_ He]]]]]]]; [|right|discriminate He].
  - left. inversion He; subst o. exists k. rewrite Hstep. cbn [fst snd]. split; [reflexivity|]. split; [|reflexivity].
    pose proof (stepS_split r Hr) as Sp. rewrite Hstep in Sp. destruct Sp as [Hk [_ [Hl _]]].
    pose proof (Zle_0_nat (length s')). unfold zlen in *. lia.
  - inversion He; subst o. unfold zlen. rewrite app_length. lia.
Qed.

(* ---- where the tokens stand ---- *)
(* placed e t: the token t of the text e is recorded at the offset where one of its texts
   begins in e (for raw strings and literals: just after the opening apostrophe or backtick) *)
Definition placed (e : bytes) (t : token) : Prop :=
  exists pre text rest, e = pre ++ text ++ rest /\ tok_text (ttype t) (tvalue t) text /\ tpos t = tok_pos (ttype t) (zlen pre).

Lemma lex_loop_placed : forall f e pre s w acc out,
  tokenize_loopS f (AS (zlen pre) s w) acc = Ok out -> e = pre ++ s -> Forall (placed e) acc ->
  exists l, out = rev acc ++ l ++ [Token tEOF [] (zlen e) 0] /\ Forall (placed e) l.
Proof.
  induction f as [|f IH]; intros e pre s w acc out H He Hacc; [discriminate|].
  assert (Hp : 0 <= zlen pre) by (unfold zlen; lia).
  destruct s as [|b s0].
  - rewrite lex_eof in H. inversion H; subst. exists []. rewrite app_nil_r. cbn [rev app]. split; [reflexivity | constructor].
  - destruct (step_cases b s0 (zlen pre) Hp) as [[c [s' [Hs Hc]]]|[[ty [v [text [rest [Hs [Ht Hfo]]]]]]|[er [_ Herr]]]].
    + inversion Hs; subst c s'. rewrite (lex_space b _ _ _ _ _ Hc) in H.
      apply (IH e (pre ++ [b]) s0 1 acc out); [|rewrite <- app_assoc; exact He | exact Hacc].
      replace (zlen (pre ++ [b])) with (zlen pre + 1) by (unfold zlen; rewrite app_length; cbn [length]; lia). exact H.
    + rewrite Hs in H. destruct (lex_tok_text ty v text Ht rest f (zlen pre) w acc Hfo Hp) as [tok [p' [k [T1 [T2 [T3 [Hp' Hloop]]]]]]].
      rewrite Hloop in H.
      assert (Hpl : placed e tok).
      { exists pre, text, rest. rewrite T1, T2. split; [rewrite He, Hs; reflexivity|]. split; [exact Ht | exact T3]. }
      destruct (IH e (pre ++ text) rest k (tok :: acc) out) as [l [Ho HL]].
      * replace (zlen (pre ++ text)) with p' by (subst p'; unfold zlen; rewrite app_length; lia). exact H.
      * rewrite <- app_assoc, <- Hs. exact He.
      * constructor; assumption.
      * exists (tok :: l). split; [rewrite Ho; cbn [rev]; rewrite <- !app_assoc; reflexivity | constructor; assumption].
    + rewrite (Herr f w acc) in H. discriminate.
Qed.

Theorem tokens_placed e ts : tokenize e = Ok ts ->
  exists out, ts = out ++ [Token tEOF [] (zlen e) 0] /\ Forall (placed e) out.
Proof.
  rewrite tokenize_view. unfold tokenizeS. intros H.
  destruct (lex_loop_placed _ e [] e 0 [] ts H eq_refl ltac:(constructor)) as [l [Ho HL]]. exists l. split; assumption.
Qed.

(* the reading is unique *)
Theorem lex_deterministic e l1 l2 : Lex e l1 -> Lex e l2 -> l1 = l2.
Proof.
  intros H1 H2. destruct (lex_complete e l1 H1) as [o1 [T1 M1]]. destruct (lex_complete e l2 H2) as [o2 [T2 M2]].
  rewrite T1 in T2. inversion T2 as [E]. apply app_inj_tail in E as [-> _]. congruence.
Qed.

(* a well-precedenced tree has JSON literals and int64 integers: what the semantics needs *)
Ltac sp H := repeat match type of H with (_ && _) = true => let H2 := fresh H in apply andb_true_iff in H as [H H2] end.

Lemma wp_sem_ok : forall e : expr, wp e = true -> sem_ok e = true.
Proof.
  fix IH 1. intros e Hw.
  assert (Ho : forall (l : option expr) p, match l with Some x => wp x && (p <=? rl x) | None => true end = true ->
                 match l with Some x => sem_ok x | None => true end = true).
  { intros [x|] p H1; [|reflexivity]. apply andb_true_iff in H1 as [H1 _]. apply IH; assumption. }
  assert (Hr : forall (r : rhs) p,
             match r with
             | RNone => true
             | RDot x => wp x && (p <? lmin x) && match head x with HIdent | HQuoted | HMulti | HMultiStar | HStar => true | _ => false end
             | RBrk x => wp x && (p <? lmin x) && match head x with HBracket | HFilter => true | _ => false end
             end = true ->
             match r with RNone => true | RDot x => sem_ok x | RBrk x => sem_ok x end = true).
  { intros [|x|x] p H1; [reflexivity| |]; sp H1; apply IH; assumption. }
  destruct e as [q name | | lv | s | x | es | kvs | fname args | x | l i | l a b c r | l r | l r
                 | l c r | l r | l r | l r | l r | l r | op l r]; cbn [wp] in Hw; cbn [sem_ok]; try reflexivity.
  - exact Hw.
  - sp Hw. apply IH; assumption.
  - apply andb_true_iff in Hw as [_ Hw].
    induction es as [|x es IHes]; [reflexivity|]. cbn [forallb] in *. sp Hw. rewrite (IH x Hw). apply IHes; assumption.
  - apply andb_true_iff in Hw as [_ Hw].
    induction kvs as [|[[q k] x] kvs IHk]; [reflexivity|]. cbn [forallb fst snd] in *. sp Hw. rewrite (IH x Hw). apply IHk; assumption.
  - induction args as [|a args IHa]; [reflexivity|]. cbn [forallb] in *. sp Hw. rewrite IHa by assumption.
    destruct a as [x|x]; sp Hw; rewrite (IH x Hw); reflexivity.
  - sp Hw. apply IH; assumption.
  - sp Hw; repeat (match goal with |- (_ && _) = true => apply andb_true_iff; split end); try assumption; try (eapply Ho; eassumption); try (eapply Hr; eassumption); try (apply IH; assumption).
  - sp Hw; repeat (match goal with |- (_ && _) = true => apply andb_true_iff; split end); try assumption; try (eapply Ho; eassumption); try (eapply Hr; eassumption); try (apply IH; assumption).
  - sp Hw; repeat (match goal with |- (_ && _) = true => apply andb_true_iff; split end); try assumption; try (eapply Ho; eassumption); try (eapply Hr; eassumption); try (apply IH; assumption).
  - sp Hw; repeat (match goal with |- (_ && _) = true => apply andb_true_iff; split end); try assumption; try (eapply Ho; eassumption); try (eapply Hr; eassumption); try (apply IH; assumption).
  - sp Hw; repeat (match goal with |- (_ && _) = true => apply andb_true_iff; split end); try assumption; try (eapply Ho; eassumption); try (eapply Hr; eassumption); try (apply IH; assumption).
  - sp Hw; repeat (match goal with |- (_ && _) = true => apply andb_true_iff; split end); try assumption; try (eapply Ho; eassumption); try (eapply Hr; eassumption); try (apply IH; assumption).
  - sp Hw; repeat (match goal with |- (_ && _) = true => apply andb_true_iff; split end); try assumption; try (eapply Ho; eassumption); try (eapply Hr; eassumption); try (apply IH; assumption).
  - sp Hw; repeat (match goal with |- (_ && _) = true => apply andb_true_iff; split end); try assumption; try (eapply Ho; eassumption); try (eapply Hr; eassumption); try (apply IH; assumption).
  - sp Hw; repeat (match goal with |- (_ && _) = true => apply andb_true_iff; split end); try assumption; try (eapply Ho; eassumption); try (eapply Hr; eassumption); try (apply IH; assumption).
  - sp Hw; repeat (match goal with |- (_ && _) = true => apply andb_true_iff; split end); try assumption; try (eapply Ho; eassumption); try (eapply Hr; eassumption); try (apply IH; assumption).
  - sp Hw; repeat (match goal with |- (_ && _) = true => apply andb_true_iff; split end); try assumption; try (eapply Ho; eassumption); try (eapply Hr; eassumption); try (apply IH; assumption).
Qed.

(* a syntax error of the parser points at the start of one of the tokens (the end-of-input
   token stands at the end of the text) *)
Lemma parse_error_at_token (ts : list token) : wf_tokens ts ->
  forall o, parse_tokens ts = Err (ESyntax o) -> exists t, In t ts /\ o = tpos t.
Proof.
  intros Hwf o H. pose proof (parse_tokens_total ts Hwf) as T. rewrite H in T. exact T.
Qed.

Lemma compile_error_located (e : bytes) o : parse e = Err (ESyntax o) ->
  tokenize e = Err (ESyntax o) \/ o = zlen e \/
  exists pre text rest ty v, e = pre ++ text ++ rest /\ tok_text ty v text /\ o = tok_pos ty (zlen pre).
Proof.
  unfold parse. intros H. destruct (tokenize e) as [ts|er| |] eqn:Et; cbn [bind] in H; try discriminate.
  - right. pose proof (tokenize_wf e ts Et) as Hwf. destruct (parse_error_at_token ts Hwf o H) as [t [Hin Ho]].
    destruct (tokens_placed e ts Et) as [out [-> Hpl]]. apply in_app_or in Hin as [Hin|[<-|[]]].
    + right. rewrite Forall_forall in Hpl. destruct (Hpl t Hin) as [pre [text [rest [He [Ht Hpos]]]]].
      exists pre, text, rest, (ttype t), (tvalue t). rewrite Ho, Hpos. auto.
    + left. exact Ho.
  - left. inversion H. reflexivity.
Qed.

(* ---- Compile from bytes ---- *)
Section Text.
Variable lit_text : value -> bytes.
Hypothesis lit_ok : lit_spec lit_text.

(* l reads as the token list r: same types, values equal as the parser reads them *)
Definition reads_as (l : list (tokType * bytes)) (r : list token) : Prop :=
  Forall2 (fun a t => fst a = ttype t /\ veq (ttype t) (snd a) (tvalue t)) l r.

Lemma Forall2_nth_r {A B} (R : A -> B -> Prop) a b : Forall2 R a b ->
  forall k y, nth_error b k = Some y -> exists x, nth_error a k = Some x /\ R x y.
Proof.
  induction 1 as [|x y a b Hxy _ IH]; intros k z Hk; [destruct k; discriminate|].
  destruct k as [|k]; cbn in *; [inversion Hk; subst; eauto | apply IH; exact Hk].
Qed.

Theorem compile_bytes_exact (s : bytes) n :
  parse s = Ok n <->
  exists l e, Lex s l /\ reads_as l (render lit_text e) /\ n = Grammar.compile e /\ wp e = true /\ npos e = true.
Proof.
  rewrite (compile_exact lit_text lit_ok). split.
  - intros [ts [e [Ht [Hn [Hw [Hnp Hsp]]]]]]. destruct (lex_sound s ts Ht) as [out [-> HL]].
    exists (map tv out), e. split; [exact HL|]. split; [|auto].
    pose proof (tokenize_wf s _ Ht) as Hwf.
    pose proof (Sim_whole _ (render lit_text e) Hwf Hsp) as F.
    apply Forall2_app_inv_l in F as [r1 [r2 [F1 [F2 Hr]]]].
    inversion F2 as [|a b ? ? Hab F3]; subst. inversion F3; subst.
    apply app_inj_tail in Hr as [<- _].
    unfold reads_as. clear - F1. induction F1 as [|x y a b [H1 H2] _ IH]; cbn [map]; constructor; [|exact IH].
    unfold tv. cbn [fst snd]. split; assumption.
  - intros [l [e [HL [Hr [Hn [Hw Hnp]]]]]]. destruct (lex_complete s l HL) as [out [Ht Hm]].
    exists (out ++ [Token tEOF [] (zlen s) 0]), e. split; [exact Ht|]. split; [exact Hn|]. split; [exact Hw|]. split; [exact Hnp|].
    subst l. intros k t Hk. rewrite Nat.add_0_l.
    assert (F : Forall2 (tsim) (out ++ [Token tEOF [] (zlen s) 0]) (render lit_text e ++ [tk tEOF []])).
    { apply Forall2_app.
      - clear - Hr. unfold reads_as in Hr. remember (map tv out) as m eqn:Em. revert out Em.
        induction Hr as [|x y a b [H1 H2] _ IH]; intros out Em; destruct out as [|o out']; try discriminate; constructor.
        + cbn [map] in Em. inversion Em; subst. unfold tv in *. cbn [fst snd] in *. split; assumption.
        + apply IH. cbn [map] in Em. inversion Em. reflexivity.
      - constructor; [|constructor]. split; [reflexivity | exact I]. }
    destruct (Forall2_nth_r _ _ _ F k t Hk) as [a [Ha [T1 T2]]]. exists a. split; [exact Ha|]. split; assumption.
Qed.

(* Search from bytes: on every text that reads as a well-precedenced tree, Search is
   the denotation of that tree; on every other text it fails (at compile time) *)
Theorem search_bytes_exact (ord : obj -> obj) (ord_perm : forall m, Permutation.Permutation (ord m) m) (s : bytes) l e d :
  Lex s l -> reads_as l (render lit_text e) -> wp e = true -> npos e = true -> plain d = true ->
  Api.search ord s d = eval ord e d.
Proof.
  intros HL Hr Hw Hnp Hd. unfold Api.search.
  assert (Hc : parse s = Ok (Grammar.compile e)) by (apply compile_bytes_exact; exists l, e; auto).
  rewrite Hc. cbn [bind]. apply (search_compiled_is_eval ord ord_perm e d (wp_sem_ok e Hw) Hd).
Qed.

Theorem search_bytes_rejects (ord : obj -> obj) (s : bytes) d :
  (forall l e, Lex s l -> reads_as l (render lit_text e) -> wp e = true -> npos e = true -> False) ->
  exists err, Api.search ord s d = Err err.
Proof.
  intros Hno. unfold Api.search. destruct (compile_exactly_one s) as [[n Hn]|[er He]].
  - unfold Api.compile in Hn. apply compile_bytes_exact in Hn as [l [e [H1 [H2 [_ [H4 H5]]]]]]. destruct (Hno l e H1 H2 H4 H5).
  - unfold Api.compile in He. rewrite He. exists er. reflexivity.
Qed.

End Text.
End WithNum.

(* ParserTotal.v — the parser never reads outside the token list, never runs out
   of fuel and always moves forward, on every token list that ends in its only
   tEOF (which is what the lexer produces); a reported syntax error carries the
   position of one of the tokens. *)
From JM Require Import Model.Base Model.Num Model.Utf8 Model.Value Model.JsonText Model.Lexer Model.Parser.
From JM Require Import gen.Tables Proofs.TablesOk Proofs.ValueFacts.
From Coq Require Import ZifyBool.

Section WithNum.
Context {NumO : NumOps}.

Section Tokens.
Variable ts : list token.
Let n := length ts.

(* the token list ends in its only tEOF *)
Definition wf_tokens : Prop :=
  (1 <= n)%nat /\ forall i t, nth_error ts i = Some t -> (ttype t = tEOF <-> i = (n - 1)%nat).
Hypothesis Hwf : wf_tokens.

Definition pos_ok (o : Z) : Prop := exists t, In t ts /\ o = tpos t.
Definition err_ok {A} (r : outcome A) : Prop := forall o, r = Err (ESyntax o) -> pos_ok o.

(* what a parsing function called at index i with sub-calls at fuel f may do *)
Definition Res (i lo f : nat) (r : outcome (node * nat)) : Prop :=
  r <> Panic /\ (r = OutOfFuel -> (f < n - i)%nat) /\
  (forall x j, r = Ok (x, j) -> (lo <= j)%nat /\ (j < n)%nat) /\ err_ok r.

Lemma tok_at i : (i < n)%nat -> exists t, nth_error ts i = Some t.
Proof. intros H. destruct (nth_error ts i) eqn:E; [eauto|]. apply nth_error_None in E. unfold n in H. lia. Qed.

Lemma look_ok i k : (i + k < n)%nat -> exists t, lookaheadToken ts i k = Ok t /\ nth_error ts (i + k) = Some t.
Proof.
  intros H. destruct (tok_at (i + k) H) as [t Ht]. exists t. split; [|exact Ht].
  unfold lookaheadToken, nth_or_panic. rewrite Ht. reflexivity.
Qed.

Lemma current_ok i : (i < n)%nat ->
  exists t, nth_error ts i = Some t /\ current ts i = Ok (ttype t) /\ lookaheadToken ts i 0 = Ok t.
Proof.
  intros H. destruct (look_ok i 0 ltac:(lia)) as [t [E1 E2]]. rewrite Nat.add_0_r in E2.
  exists t. repeat split; auto. unfold current, lookahead. rewrite E1. reflexivity.
Qed.

Lemma not_eof_lt i t : nth_error ts i = Some t -> ttype t <> tEOF -> (S i < n)%nat.
Proof.
  intros Ht Hne. destruct Hwf as [Hn Hl]. assert (i < n)%nat.
  { apply nth_error_Some. unfold n in *. congruence. }
  destruct (Nat.eq_dec i (n - 1)) as [->|]; [|lia]. exfalso. apply Hne. apply (Hl _ _ Ht). reflexivity.
Qed.

Lemma tok_in i t : nth_error ts i = Some t -> In t ts.
Proof. apply nth_error_In. Qed.

Lemma syntaxError_res {A} i : (i < n)%nat -> exists o, (syntaxError ts i : outcome A) = Err (ESyntax o) /\ pos_ok o.
Proof.
  intros H. destruct (current_ok i H) as [t [Ht [_ El]]]. exists (tpos t). unfold syntaxError. rewrite El. cbn.
  split; [reflexivity|]. exists t. split; [eapply tok_in; eauto | reflexivity].
Qed.

Lemma tok_eqb_eq a b : tok_eqb a b = true <-> a = b.
Proof. split; [destruct a, b; cbn; intros H; try discriminate; reflexivity | intros ->; destruct b; reflexivity]. Qed.

(* p.match *)
Lemma match_res i ty : (i < n)%nat -> ty <> tEOF ->
  (match_ ts i ty = Ok (S i) /\ (S i < n)%nat /\ (exists t, nth_error ts i = Some t /\ ttype t = ty)) \/
  (exists o, match_ ts i ty = Err (ESyntax o) /\ pos_ok o).
Proof.
  intros H Hty. destruct (current_ok i H) as [t [Ht [Ec El]]]. unfold match_. rewrite Ec. cbn [bind].
  destruct (tok_eqb (ttype t) ty) eqn:E.
  - left. apply tok_eqb_eq in E. split; [reflexivity|]. split; [|eauto].
    eapply not_eof_lt; eauto. congruence.
  - right. apply syntaxError_res. exact H.
Qed.

Lemma res_err i lo f o : pos_ok o -> Res i lo f (Err (ESyntax o)).
Proof.
  intros H. unfold Res, err_ok. split; [discriminate|]. split; [discriminate|]. split; [discriminate|].
  intros o' E. inversion E; subst. exact H.
Qed.
Lemma res_err_other i lo f : Res i lo f (Err ECompileOther).
Proof. unfold Res, err_ok. split; [discriminate|]. split; [discriminate|]. split; discriminate. Qed.
Lemma res_ok i lo f x j : (lo <= j)%nat -> (j < n)%nat -> Res i lo f (Ok (x, j)).
Proof.
  intros H1 H2. unfold Res, err_ok. split; [discriminate|]. split; [discriminate|]. split; [|discriminate].
  intros x' j' E. inversion E; subst. lia.
Qed.

Lemma res_syntaxError i lo f k : (k < n)%nat -> Res i lo f (syntaxError ts k).
Proof. intros H. destruct (@syntaxError_res (node * nat) k H) as [o [-> Ho]]. apply res_err. exact Ho. Qed.

Lemma res_weaken i i' lo lo' f r : Res i lo f r -> (i' <= i)%nat -> (lo' <= lo)%nat -> Res i' lo' f r.
Proof.
  intros [H1 [H2 [H3 H4]]] Hi Hl. split; [exact H1|]. split; [|split; [|exact H4]].
  - intros E. specialize (H2 E). lia.
  - intros x j E. destruct (H3 x j E). lia.
Qed.

(* sequencing: r then k on its result *)
Lemma res_bind i lo f (r : outcome (node * nat)) (k : node * nat -> outcome (node * nat)) lo2 :
  Res i lo f r -> (i <= lo)%nat ->
  (forall x j, (lo <= j)%nat -> (j < n)%nat -> Res j lo2 f (k (x, j))) ->
  Res i lo2 f (bind r k).
Proof.
  intros [H1 [H2 [H3 H4]]] Hi Hk. destruct r as [[x j]| e | |]; cbn [bind].
  - destruct (H3 x j eq_refl) as [Hl Hj]. eapply res_weaken; [apply Hk; assumption | lia | lia].
  - split; [discriminate|]. split; [discriminate|]. split; [discriminate|]. intros o E. apply H4. exact E.
  - congruence.
  - split; [discriminate|]. split; [intros _; apply H2; reflexivity|]. split; discriminate.
Qed.

(* ---- the functions without recursion ---- *)
Lemma atoi_res (s : bytes) : True. Proof. exact I. Qed.

Lemma slice_loop_res f g parts index i :
  (i < n)%nat -> (n - i <= g)%nat -> Res i (S i) f (slice_loop ts g parts index i).
Proof.
  revert parts index i. induction g as [|g IH]; intros parts index i Hi Hg; [lia|].
  cbn [slice_loop]. destruct (current_ok i Hi) as [t [Ht [Ec El]]]. rewrite Ec. cbn [bind].
  destruct (negb (tok_eqb (ttype t) tRbracket) && Nat.ltb index 3) eqn:Econd.
  - destruct (tok_eqb (ttype t) tColon) eqn:Ecol.
    + destruct (Nat.eqb (S index) 3); [apply res_syntaxError; exact Hi|].
      apply tok_eqb_eq in Ecol. assert (S i < n)%nat by (eapply not_eof_lt; eauto; congruence).
      eapply res_weaken; [apply IH; lia | lia | lia].
    + destruct (tok_eqb (ttype t) tNumber && _) eqn:Enum; [|apply res_syntaxError; exact Hi].
      rewrite El. cbn [bind]. destruct (atoi (tvalue t)); [|apply res_err_other].
      apply andb_true_iff in Enum as [Enum _]. apply tok_eqb_eq in Enum.
      assert (S i < n)%nat by (eapply not_eof_lt; eauto; congruence).
      eapply res_weaken; [apply IH; lia | lia | lia].
  - destruct (match_res i tRbracket Hi ltac:(discriminate)) as [[E [Hs _]]|[o [E Ho]]]; rewrite E; cbn [bind].
    + destruct parts as [[a b] c]. apply res_ok; lia.
    + apply res_err. exact Ho.
Qed.

Lemma parseSliceExpression_res f i : (i < n)%nat -> Res i (S i) f (parseSliceExpression ts i).
Proof. intros H. apply slice_loop_res; [exact H | unfold n; lia]. Qed.

(* called with the current token a number or a colon *)
Lemma parseIndexExpression_res f i t :
  nth_error ts i = Some t -> (ttype t = tNumber \/ ttype t = tColon) ->
  Res i (S i) f (parseIndexExpression ts i).
Proof.
  intros Ht Hty. assert (Hi : (i < n)%nat) by (apply nth_error_Some; unfold n; congruence).
  assert (Hs : (S i < n)%nat) by (eapply not_eof_lt; eauto; destruct Hty as [E|E]; rewrite E; discriminate).
  unfold parseIndexExpression.
  destruct (look_ok i 0 ltac:(lia)) as [t0 [E0 E0']]. rewrite Nat.add_0_r in E0'. rewrite Ht in E0'. inversion E0'; subst t0.
  unfold lookahead at 1. rewrite E0. cbn [bind omap].
  destruct (tok_eqb (ttype t) tColon) eqn:Ec; cbn [bind].
  - apply parseSliceExpression_res. exact Hi.
  - destruct (look_ok i 1 ltac:(lia)) as [t1 [E1 _]]. unfold lookahead. rewrite E1. cbn [bind omap].
    destruct (tok_eqb (ttype t1) tColon); [apply parseSliceExpression_res; exact Hi|].
    destruct (atoi (tvalue t)); [|apply res_err_other].
    destruct (match_res (S i) tRbracket Hs ltac:(discriminate)) as [[E [Hs2 _]]|[o [E Ho]]]; rewrite E; cbn [bind].
    + apply res_ok; lia.
    + apply res_err. exact Ho.
Qed.

Lemma binding_power_nonneg t : 0 <= binding_power t.
Proof. destruct t; cbn; lia. Qed.

Ltac bpnn :=
  first [ assumption
        | apply binding_power_nonneg
        | cbn [bp_of]; first [assumption | apply binding_power_nonneg | lia]
        | unfold bp_of; cbn; first [assumption | apply binding_power_nonneg | lia] ].

(* ---- the functions that call parseExpression / continueExpression ---- *)
Section Body.
Variable f : nat.
Variable pe : Z -> nat -> outcome (node * nat).
Variable ce : node -> Z -> nat -> outcome (node * nat).
Hypothesis Hpe : forall bp i, 0 <= bp -> (i < n)%nat -> Res i (S i) f (pe bp i).
Hypothesis Hce : forall l bp i, 0 <= bp -> (1 <= i)%nat -> (i < n)%nat -> Res i i f (ce l bp i).

Lemma msl_loop_res g acc i :
  (i < n)%nat -> (n - i <= g)%nat -> Res i (S i) f (msl_loop ts pe g acc i).
Proof.
  revert acc i. induction g as [|g IH]; intros acc i Hi Hg; [lia|].
  cbn [msl_loop]. eapply res_bind; [apply Hpe; [bpnn | exact Hi] | lia |]. intros e i1 Hl1 Hn1. cbn beta iota.
  destruct (current_ok i1 Hn1) as [t [Ht [Ec El]]]. rewrite Ec. cbn [bind].
  destruct (tok_eqb (ttype t) tRbracket).
  - destruct (match_res i1 tRbracket Hn1 ltac:(discriminate)) as [[E [Hs _]]|[o [E Ho]]]; rewrite E; cbn [bind].
    + apply res_ok; lia.
    + apply res_err. exact Ho.
  - destruct (match_res i1 tComma Hn1 ltac:(discriminate)) as [[E [Hs _]]|[o [E Ho]]]; rewrite E; cbn [bind].
    + eapply res_weaken; [apply IH; lia | lia | lia].
    + apply res_err. exact Ho.
Qed.

Lemma parseMultiSelectList_res i : (i < n)%nat -> Res i (S i) f (parseMultiSelectList ts pe i).
Proof. intros H. apply msl_loop_res; [exact H | unfold n; lia]. Qed.

Lemma msh_loop_res g acc i :
  (i < n)%nat -> (n - i <= g)%nat -> Res i (S i) f (msh_loop ts pe g acc i).
Proof.
  revert acc i. induction g as [|g IH]; intros acc i Hi Hg; [lia|].
  cbn [msh_loop]. destruct (current_ok i Hi) as [t [Ht [Ec El]]]. rewrite El, Ec. cbn [bind].
  destruct (tok_eqb (ttype t) tUnquotedIdentifier || tok_eqb (ttype t) tQuotedIdentifier) eqn:Ek;
    [|apply res_syntaxError; exact Hi].
  assert (Hs : (S i < n)%nat).
  { eapply not_eof_lt; eauto. apply orb_true_iff in Ek as [Ek|Ek]; apply tok_eqb_eq in Ek; rewrite Ek; discriminate. }
  destruct (match_res (S i) tColon Hs ltac:(discriminate)) as [[E [Hs2 _]]|[o [E Ho]]]; rewrite E; cbn [bind];
    [|apply res_err; exact Ho].
  eapply res_bind; [eapply res_weaken; [apply Hpe; [bpnn | exact Hs2] | lia | apply Nat.le_refl] | lia |].
  intros v i2 Hl2 Hn2. cbn beta iota.
  destruct (current_ok i2 Hn2) as [t2 [Ht2 [Ec2 _]]]. rewrite Ec2. cbn [bind].
  destruct (tok_eqb (ttype t2) tComma) eqn:Ecm.
  - apply tok_eqb_eq in Ecm. assert (S i2 < n)%nat by (eapply not_eof_lt; eauto; congruence).
    eapply res_weaken; [apply IH; lia | lia | lia].
  - destruct (tok_eqb (ttype t2) tRbrace) eqn:Erb; [|apply res_syntaxError; exact Hn2].
    apply tok_eqb_eq in Erb. assert (S i2 < n)%nat by (eapply not_eof_lt; eauto; congruence).
    apply res_ok; lia.
Qed.

Lemma parseMultiSelectHash_res i : (i < n)%nat -> Res i (S i) f (parseMultiSelectHash ts pe i).
Proof. intros H. apply msh_loop_res; [exact H | unfold n; lia]. Qed.

Lemma parseDotRHS_res bp i : 0 <= bp -> (i < n)%nat -> Res i (S i) f (parseDotRHS ts pe ce bp i).
Proof.
  intros Hbp Hi. unfold parseDotRHS. destruct (current_ok i Hi) as [t [Ht [Ec _]]]. rewrite Ec. cbn [bind].
  destruct (_ || _ || _); [apply Hpe; [bpnn | exact Hi]|].
  destruct (tok_eqb (ttype t) tLbracket).
  - destruct (match_res i tLbracket Hi ltac:(discriminate)) as [[E [Hs _]]|[o [E Ho]]]; rewrite E; cbn [bind];
      [|apply res_err; exact Ho].
    eapply res_bind; [eapply res_weaken; [apply parseMultiSelectList_res; exact Hs | lia | apply Nat.le_refl] | lia |].
    intros l i2 Hl2 Hn2. eapply res_weaken; [apply Hce; [bpnn | lia | exact Hn2] | lia | lia].
  - destruct (tok_eqb (ttype t) tLbrace); [|apply res_syntaxError; exact Hi].
    destruct (match_res i tLbrace Hi ltac:(discriminate)) as [[E [Hs _]]|[o [E Ho]]]; rewrite E; cbn [bind];
      [|apply res_err; exact Ho].
    eapply res_bind; [eapply res_weaken; [apply parseMultiSelectHash_res; exact Hs | lia | apply Nat.le_refl] | lia |].
    intros l i2 Hl2 Hn2. eapply res_weaken; [apply Hce; [bpnn | lia | exact Hn2] | lia | lia].
Qed.

(* may return without consuming anything *)
Lemma parseProjectionRHS_res bp i : 0 <= bp -> (i < n)%nat -> Res i i f (parseProjectionRHS ts pe ce bp i).
Proof.
  intros Hbp Hi. unfold parseProjectionRHS. destruct (current_ok i Hi) as [t [Ht [Ec _]]]. rewrite Ec. cbn [bind].
  destruct (binding_power (ttype t) <? projection_stop) eqn:Ebp; [apply res_ok; lia|].
  assert (Hne : ttype t <> tEOF) by (intros E; rewrite E in Ebp; cbn in Ebp; discriminate).
  assert (Hs : (S i < n)%nat) by (eapply not_eof_lt; eauto).
  destruct (tok_eqb (ttype t) tLbracket).
  - destruct (look_ok i 1 ltac:(lia)) as [t1 [E1 Ht1]]. unfold lookahead at 1. rewrite E1. cbn [bind omap].
    destruct (tok_eqb (ttype t1) tNumber || tok_eqb (ttype t1) tColon); cbn [bind].
    + eapply res_weaken; [apply Hpe; [bpnn | exact Hi] | lia | lia].
    + destruct (tok_eqb (ttype t1) tStar) eqn:Est; cbn [bind].
      * apply tok_eqb_eq in Est. assert (S (i + 1) < n)%nat by (eapply not_eof_lt; eauto; congruence).
        destruct (look_ok i 2 ltac:(lia)) as [t2 [E2 _]]. unfold lookahead. rewrite E2. cbn [bind omap].
        destruct (tok_eqb (ttype t2) tRbracket); [|apply res_syntaxError; exact Hi].
        eapply res_weaken; [apply Hpe; [bpnn | exact Hi] | lia | lia].
      * apply res_syntaxError. exact Hi.
  - destruct (tok_eqb (ttype t) tFilter); [eapply res_weaken; [apply Hpe; [bpnn | exact Hi] | lia | lia]|].
    destruct (tok_eqb (ttype t) tDot); [|apply res_syntaxError; exact Hi].
    destruct (match_res i tDot Hi ltac:(discriminate)) as [[E [Hs2 _]]|[o [E Ho]]]; rewrite E; cbn [bind];
      [|apply res_err; exact Ho].
    eapply res_weaken; [apply parseDotRHS_res; [bpnn | exact Hs2] | lia | lia].
Qed.

Lemma projectIfSlice_res lft rgt i : (i < n)%nat -> Res i i f (projectIfSlice ts pe ce lft rgt i).
Proof.
  intros Hi. unfold projectIfSlice. destruct (ast_eqb (node_type rgt) ASTSlice); [|apply res_ok; lia].
  eapply res_bind; [apply parseProjectionRHS_res; [bpnn | exact Hi] | lia |]. intros r i1 Hl Hn. apply res_ok; lia.
Qed.

Lemma parseFilter_res nd i : (i < n)%nat -> Res i (S i) f (parseFilter ts pe ce nd i).
Proof.
  intros Hi. unfold parseFilter. eapply res_bind; [apply Hpe; [bpnn | exact Hi] | lia |]. intros c i1 Hl1 Hn1. cbn beta iota.
  destruct (match_res i1 tRbracket Hn1 ltac:(discriminate)) as [[E [Hs _]]|[o [E Ho]]]; rewrite E; cbn [bind];
    [|apply res_err; exact Ho].
  destruct (current_ok (S i1) Hs) as [t [Ht [Ec _]]]. rewrite Ec. cbn [bind].
  destruct (tok_eqb (ttype t) tFlatten); cbn [bind]; [apply res_ok; lia|].
  eapply res_bind; [eapply res_weaken; [apply parseProjectionRHS_res; [bpnn | exact Hs] | lia | apply Nat.le_refl] | lia |].
  intros r i3 Hl3 Hn3. apply res_ok; lia.
Qed.

Lemma parseFunctionArg_res i : (i < n)%nat -> Res i (S i) f (parseFunctionArg ts pe i).
Proof.
  intros Hi. unfold parseFunctionArg. destruct (current_ok i Hi) as [t [Ht [Ec _]]]. rewrite Ec. cbn [bind].
  destruct (tok_eqb (ttype t) tExpref) eqn:Ee; cbn [negb].
  - apply tok_eqb_eq in Ee. assert (Hs : (S i < n)%nat) by (eapply not_eof_lt; eauto; congruence).
    eapply res_bind; [eapply res_weaken; [apply Hpe; [bpnn | exact Hs] | lia | apply Nat.le_refl] | lia |].
    intros e i1 Hl Hn. apply res_ok; lia.
  - apply Hpe; [bpnn | exact Hi].
Qed.

Definition ResL (i lo : nat) (r : outcome (list node * nat)) : Prop :=
  r <> Panic /\ (r = OutOfFuel -> (f < n - i)%nat) /\
  (forall x j, r = Ok (x, j) -> (lo <= j)%nat /\ (j < n)%nat) /\ err_ok r.

Lemma args_loop_res g acc i : (i < n)%nat -> (n - i <= g)%nat -> ResL i (S i) (args_loop ts pe g acc i).
Proof.
  revert acc i. induction g as [|g IH]; intros acc i Hi Hg; [lia|].
  cbn [args_loop]. destruct (parseFunctionArg_res i Hi) as [P1 [P2 [P3 P4]]].
  destruct (parseFunctionArg ts pe i) as [[e i1]| e0 | |]; cbn [bind].
  - destruct (P3 e i1 eq_refl) as [Hl1 Hn1].
    destruct (current_ok i1 Hn1) as [t [Ht [Ec _]]]. rewrite Ec. cbn [bind].
    destruct (tok_eqb (ttype t) tRparen).
    + unfold ResL, err_ok. split; [discriminate|]. split; [discriminate|]. split; [|discriminate].
      intros xs j0 E. inversion E; subst. lia.
    + destruct (match_res i1 tComma Hn1 ltac:(discriminate)) as [[E [Hs _]]|[o [E Ho]]]; rewrite E; cbn [bind].
      * destruct (IH (e :: acc) (S i1) Hs ltac:(lia)) as [Q1 [Q2 [Q3 Q4]]].
        split; [exact Q1|]. split; [intros Eo; specialize (Q2 Eo); lia|]. split; [|exact Q4].
        intros xs j0 Ex. destruct (Q3 xs j0 Ex). lia.
      * unfold ResL, err_ok. split; [discriminate|]. split; [discriminate|]. split; [discriminate|].
        intros o' Eo. inversion Eo; subst. exact Ho.
  - unfold ResL, err_ok. split; [discriminate|]. split; [discriminate|]. split; [discriminate|].
    intros o Eo. apply P4. inversion Eo; subst. reflexivity.
  - congruence.
  - unfold ResL, err_ok. split; [discriminate|]. split; [intros _; apply P2; reflexivity|]. split; discriminate.
Qed.

(* nud: t is the token before index i *)
Lemma nud_res t i0 :
  nth_error ts i0 = Some t -> Res (S i0) (S i0) f (nud ts pe ce t (S i0)).
Proof.
  intros Ht. assert (Hi0 : (i0 < n)%nat) by (apply nth_error_Some; unfold n; congruence).
  assert (Hpos : pos_ok (tpos t)) by (exists t; split; [eapply tok_in; eauto | reflexivity]).
  assert (Hs : ttype t <> tEOF -> (S i0 < n)%nat) by (intros H; eapply not_eof_lt; eauto).
  unfold nud. destruct (ttype t) eqn:Ety; try (apply res_err; exact Hpos).
  - (* tStar *)
    specialize (Hs ltac:(discriminate)). destruct (current_ok (S i0) Hs) as [t1 [Ht1 [Ec _]]]. rewrite Ec. cbn [bind].
    eapply res_bind with (lo := S i0).
    + destruct (tok_eqb (ttype t1) tRbracket); [apply res_ok; lia|].
      eapply res_weaken; [apply parseProjectionRHS_res; [bpnn | exact Hs] | lia | lia].
    + lia.
    + intros r j Hl Hn. apply res_ok; lia.
  - (* tFilter *) specialize (Hs ltac:(discriminate)).
    eapply res_weaken; [apply parseFilter_res; exact Hs | lia | lia].
  - (* tFlatten *) specialize (Hs ltac:(discriminate)).
    eapply res_bind; [eapply res_weaken; [apply parseProjectionRHS_res; [bpnn | exact Hs] | lia | apply Nat.le_refl] | lia |].
    intros r j Hl Hn. apply res_ok; lia.
  - (* tLparen *) specialize (Hs ltac:(discriminate)).
    eapply res_bind; [eapply res_weaken; [apply Hpe; [bpnn | exact Hs] | lia | apply Nat.le_refl] | lia |].
    intros e i1 Hl1 Hn1. cbn beta iota.
    destruct (match_res i1 tRparen Hn1 ltac:(discriminate)) as [[E [Hs2 _]]|[o [E Ho]]]; rewrite E; cbn [bind].
    + apply res_ok; lia.
    + apply res_err. exact Ho.
  - (* tLbracket *) specialize (Hs ltac:(discriminate)).
    destruct (current_ok (S i0) Hs) as [t1 [Ht1 [Ec _]]]. rewrite Ec. cbn [bind].
    destruct (tok_eqb (ttype t1) tNumber || tok_eqb (ttype t1) tColon) eqn:Enc.
    + eapply res_bind; [eapply res_weaken; [eapply parseIndexExpression_res; [exact Ht1|] | lia | apply Nat.le_refl] | lia |].
      * apply orb_true_iff in Enc as [E|E]; apply tok_eqb_eq in E; auto.
      * intros r i1 Hl1 Hn1. eapply res_weaken; [apply projectIfSlice_res; exact Hn1 | lia | lia].
    + destruct (tok_eqb (ttype t1) tStar) eqn:Est; cbn [bind].
      * apply tok_eqb_eq in Est. assert (Hs2 : (S (S i0) < n)%nat) by (eapply not_eof_lt; eauto; congruence).
        destruct (look_ok (S i0) 1 ltac:(lia)) as [t2 [E2 Ht2]]. unfold lookahead. rewrite E2. cbn [bind omap].
        destruct (tok_eqb (ttype t2) tRbracket) eqn:Erb.
        -- apply tok_eqb_eq in Erb. replace (S i0 + 1)%nat with (S (S i0)) in Ht2 by lia.
           assert (Hs3 : (S (S (S i0)) < n)%nat) by (eapply not_eof_lt; eauto; congruence).
           eapply res_bind; [eapply res_weaken; [apply parseProjectionRHS_res; [bpnn | exact Hs3] | lia | apply Nat.le_refl] | lia |].
           intros r j Hl Hn. apply res_ok; lia.
        -- eapply res_weaken; [apply parseMultiSelectList_res; exact Hs | lia | lia].
      * eapply res_weaken; [apply parseMultiSelectList_res; exact Hs | lia | lia].
  - (* tLbrace *) specialize (Hs ltac:(discriminate)).
    eapply res_weaken; [apply parseMultiSelectHash_res; exact Hs | lia | lia].
  - (* tUnquotedIdentifier *) specialize (Hs ltac:(discriminate)). apply res_ok; lia.
  - (* tQuotedIdentifier *) specialize (Hs ltac:(discriminate)).
    destruct (current_ok (S i0) Hs) as [t1 [Ht1 [Ec _]]]. rewrite Ec. cbn [bind].
    destruct (tok_eqb (ttype t1) tLparen); [apply res_err; exact Hpos | apply res_ok; lia].
  - (* tJSONLiteral *) specialize (Hs ltac:(discriminate)).
    destruct (json_unmarshal (tvalue t)); [apply res_ok; lia | apply res_err_other].
  - (* tStringLiteral *) specialize (Hs ltac:(discriminate)). apply res_ok; lia.
  - (* tCurrent *) specialize (Hs ltac:(discriminate)). apply res_ok; lia.
  - (* tNot *) specialize (Hs ltac:(discriminate)).
    eapply res_bind; [eapply res_weaken; [apply Hpe; [bpnn | exact Hs] | lia | apply Nat.le_refl] | lia |].
    intros e i1 Hl1 Hn1. apply res_ok; lia.
Qed.

(* led: the operator token tt is at index i0 >= 1, not tEOF *)
Lemma led_res tt nd i0 t :
  (1 <= i0)%nat -> nth_error ts i0 = Some t -> ttype t = tt -> tt <> tEOF ->
  Res (S i0) (S i0) f (led ts pe ce tt nd (S i0)).
Proof.
  intros H1 Ht Hty Hne. assert (Hi0 : (i0 < n)%nat) by (apply nth_error_Some; unfold n; congruence).
  assert (Hs : (S i0 < n)%nat) by (eapply not_eof_lt; eauto; congruence).
  assert (Hbin : forall ty bp, 0 <= bp -> Res (S i0) (S i0) f ('(rgt, i1) <- pe bp (S i0) ;; Ok (mk ty NVNone [nd; rgt], i1))).
  { intros ty bp Hbp. eapply res_bind; [eapply res_weaken; [apply Hpe; [bpnn | exact Hs] | lia | apply Nat.le_refl] | lia |].
    intros r j Hl Hn. apply res_ok; lia. }
  assert (Hcmp : forall bp, 0 <= bp -> Res (S i0) (S i0) f ('(rgt, i1) <- pe bp (S i0) ;; Ok (mk ASTComparator (NVTok tt) [nd; rgt], i1))).
  { intros bp Hbp. eapply res_bind; [eapply res_weaken; [apply Hpe; [bpnn | exact Hs] | lia | apply Nat.le_refl] | lia |].
    intros r j Hl Hn. apply res_ok; lia. }
  unfold led. destruct tt; try (apply res_syntaxError; exact Hs); try (apply Hbin; bpnn); try (apply Hcmp; bpnn).
  - (* tDot *)
    destruct (current_ok (S i0) Hs) as [t1 [Ht1 [Ec _]]]. rewrite Ec. cbn [bind].
    destruct (tok_eqb (ttype t1) tStar) eqn:Est; cbn [negb].
    + apply tok_eqb_eq in Est. assert (Hs2 : (S (S i0) < n)%nat) by (eapply not_eof_lt; eauto; congruence).
      eapply res_bind; [eapply res_weaken; [apply parseProjectionRHS_res; [bpnn | exact Hs2] | lia | apply Nat.le_refl] | lia |].
      intros r j Hl Hn. apply res_ok; lia.
    + eapply res_bind; [eapply res_weaken; [apply parseDotRHS_res; [bpnn | exact Hs] | lia | apply Nat.le_refl] | lia |].
      intros r j Hl Hn. apply res_ok; lia.
  - (* tFilter *) eapply res_weaken; [apply parseFilter_res; exact Hs | lia | lia].
  - (* tFlatten *)
    eapply res_bind; [eapply res_weaken; [apply parseProjectionRHS_res; [bpnn | exact Hs] | lia | apply Nat.le_refl] | lia |].
    intros r j Hl Hn. apply res_ok; lia.
  - (* tLparen *)
    destruct (Nat.ltb (S i0) 2) eqn:E2; [apply Nat.ltb_lt in E2; lia|]. cbn [bind].
    destruct (tok_at (S i0 - 2) ltac:(lia)) as [tp Htp]. unfold nth_or_panic at 1. rewrite Htp. cbn [bind].
    destruct (negb (ast_eqb (node_type nd) ASTField && tok_eqb (ttype tp) tUnquotedIdentifier)).
    + unfold nth_or_panic. replace (S i0 - 1)%nat with i0 by lia. rewrite Ht. cbn [bind].
      apply res_err. exists t. split; [eapply tok_in; eauto | reflexivity].
    + destruct (current_ok (S i0) Hs) as [t1 [Ht1 [Ec _]]]. rewrite Ec. cbn [bind].
      assert (Hargs : ResL (S i0) (S i0)
                (if negb (tok_eqb (ttype t1) tRparen) then args_loop ts pe (S (length ts)) [] (S i0) else Ok ([], S i0))).
      { destruct (tok_eqb (ttype t1) tRparen); cbn [negb].
        - unfold ResL, err_ok. split; [discriminate|]. split; [discriminate|]. split; [|discriminate].
          intros xs j E. inversion E; subst. lia.
        - destruct (args_loop_res (S (length ts)) [] (S i0) Hs ltac:(unfold n; lia)) as [Q1 [Q2 [Q3 Q4]]].
          split; [exact Q1|]. split; [exact Q2|]. split; [|exact Q4].
          intros xs j E. destruct (Q3 xs j E). lia. }
      destruct Hargs as [Q1 [Q2 [Q3 Q4]]].
      destruct (if negb (tok_eqb (ttype t1) tRparen) then _ else _) as [[args i1]| e0 | |]; cbn [bind].
      * destruct (Q3 args i1 eq_refl) as [Hl1 Hn1].
        destruct (match_res i1 tRparen Hn1 ltac:(discriminate)) as [[E [Hs2 _]]|[o [E Ho]]]; rewrite E; cbn [bind].
        -- apply res_ok; lia.
        -- apply res_err. exact Ho.
      * split; [discriminate|]. split; [discriminate|]. split; [discriminate|].
        intros o Eo. apply Q4. inversion Eo; subst. reflexivity.
      * congruence.
      * split; [discriminate|]. split; [intros _; specialize (Q2 eq_refl); lia|]. split; discriminate.
  - (* tLbracket *)
    destruct (current_ok (S i0) Hs) as [t1 [Ht1 [Ec _]]]. rewrite Ec. cbn [bind].
    destruct (tok_eqb (ttype t1) tNumber || tok_eqb (ttype t1) tColon) eqn:Enc.
    + eapply res_bind; [eapply res_weaken; [eapply parseIndexExpression_res; [exact Ht1|] | lia | apply Nat.le_refl] | lia |].
      * apply orb_true_iff in Enc as [E|E]; apply tok_eqb_eq in E; auto.
      * intros r i1 Hl1 Hn1. eapply res_weaken; [apply projectIfSlice_res; exact Hn1 | lia | lia].
    + destruct (match_res (S i0) tStar Hs ltac:(discriminate)) as [[E [Hs2 _]]|[o [E Ho]]]; rewrite E; cbn [bind];
        [|apply res_err; exact Ho].
      destruct (match_res (S (S i0)) tRbracket Hs2 ltac:(discriminate)) as [[E' [Hs3 _]]|[o [E' Ho]]]; rewrite E'; cbn [bind];
        [|apply res_err; exact Ho].
      eapply res_bind; [eapply res_weaken; [apply parseProjectionRHS_res; [bpnn | exact Hs3] | lia | apply Nat.le_refl] | lia |].
      intros r j Hl Hn. apply res_ok; lia.
Qed.

End Body.
(* ---- the recursive knot ---- *)
Lemma res_fuel_S i lo f r : Res (S i) lo f r -> Res i lo (S f) r.
Proof.
  intros [H1 [H2 [H3 H4]]]. split; [exact H1|]. split; [intros E; specialize (H2 E); lia|]. split; assumption.
Qed.

Lemma pe_ce_res : forall f,
  (forall bp i, 0 <= bp -> (i < n)%nat -> Res i (S i) f (parseExpression ts f bp i)) /\
  (forall l bp i, 0 <= bp -> (1 <= i)%nat -> (i < n)%nat -> Res i i f (continueExpression ts f l bp i)).
Proof.
  induction f as [|f [IHpe IHce]].
  - split; intros; cbn; (split; [discriminate|]; split; [intros _; lia|]; split; discriminate).
  - split.
    + intros bp i Hbp Hi. cbn [parseExpression].
      destruct (current_ok i Hi) as [t [Ht [_ El]]]. rewrite El. cbn [bind].
      pose proof (nud_res f (parseExpression ts f) (continueExpression ts f) IHpe IHce t i Ht) as Hn.
      apply res_fuel_S.
      eapply res_bind; [exact Hn | lia |]. intros l i1 Hl1 Hn1.
      eapply res_weaken; [apply IHce; [bpnn | lia | exact Hn1] | lia | lia].
    + intros l bp i Hbp H1 Hi. cbn [continueExpression].
      destruct (current_ok i Hi) as [t [Ht [Ec _]]]. rewrite Ec. cbn [bind].
      destruct (bp <? binding_power (ttype t)) eqn:Eb.
      * assert (Hne : ttype t <> tEOF) by (intros E; rewrite E in Eb; cbn in Eb; lia).
        pose proof (led_res f (parseExpression ts f) (continueExpression ts f) IHpe IHce (ttype t) l i t H1 Ht eq_refl Hne) as Hl.
        apply res_fuel_S. eapply res_weaken with (i := S i) (lo := S i); [|lia|lia].
        eapply res_bind; [exact Hl | lia |]. intros l' i' Hl' Hn'.
        eapply res_weaken; [apply IHce; [exact Hbp | lia | exact Hn'] | lia | lia].
      * apply res_ok; lia.
Qed.

(* Parser.Parse on a well-formed token list: a node or an error whose offset is
   the position of a token; never a panic, never out of fuel *)
Theorem parse_tokens_total :
  match parse_tokens ts with
  | Ok _ => True
  | Err (ESyntax o) => pos_ok o
  | Err _ => True
  | Panic => False
  | OutOfFuel => False
  end.
Proof.
  unfold parse_tokens. destruct Hwf as [Hn _].
  destruct (pe_ce_res (parse_fuel ts)) as [Hpe _].
  destruct (Hpe (bp_of site_Parse_parseExpression tUnknown 0) 0%nat ltac:(cbn; lia) ltac:(lia)) as [P1 [P2 [P3 P4]]].
  destruct (parseExpression ts (parse_fuel ts) _ 0) as [[nd i]| e | |] eqn:E; cbn [bind].
  - destruct (P3 nd i eq_refl) as [_ Hi]. destruct (current_ok i Hi) as [t [Ht [Ec _]]]. rewrite Ec. cbn [bind].
    destruct (negb (tok_eqb (ttype t) tEOF)); [|exact I].
    destruct (@syntaxError_res node i Hi) as [o [-> Ho]]. exact Ho.
  - destruct e; try exact I. apply P4. reflexivity.
  - congruence.
  - specialize (P2 eq_refl). unfold parse_fuel, n in P2. lia.
Qed.

End Tokens.
End WithNum.

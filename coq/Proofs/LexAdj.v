(* LexAdj.v — tokens written with nothing between them.  LexText.v reads a text in
   which every token is followed by whitespace; here the whitespace may be absent
   wherever the next byte cannot extend the token (follow_ok: a letter, digit or
   underscore after a name, a digit after a number, '?' or ']' after '[', the
   second character of a two-character operator after its first).  Leading
   whitespace and the absence of trailing whitespace are covered too. *)
From JM Require Import Model.Base Model.Num Model.Utf8 Model.Value Model.JsonText Model.Lexer Model.Parser Model.Slice
     Model.Functions Model.Interp Model.Api.
From JM Require Import Spec.Grammar.
From JM Require Import gen.Tables Proofs.TablesOk Proofs.ValueFacts Proofs.LexerTotal Proofs.LexView Proofs.Utf8Facts
     Proofs.JsonString Proofs.LexSpell Proofs.ParserTotal Proofs.ParserComplete Proofs.InterpRefine Proofs.LexText.
From JM Require Import Spec.Semantics.
From Coq Require Import ZifyBool ZifyN ZifyNat.

Section WithNum.
Context {NumO : NumOps}.

(* may the text [rest] directly follow a token of type ty?  Only its first byte matters. *)
Definition follow_ok (ty : tokType) (rest : bytes) : bool :=
  match rest with
  | [] => true
  | b :: _ =>
    match ty with
    | tUnquotedIdentifier => negb (is_alnum_ b)
    | tNumber => negb (is_digit b)
    | tLbracket => negb (N.eqb b 63) && negb (N.eqb b 93)
    | tPipe => negb (N.eqb b 124)
    | tExpref => negb (N.eqb b 38)
    | tNot | tLT | tGT | tUnknown => negb (N.eqb b 61)
    | _ => true
    end
  end.

Lemma follow_ws ty c rest : wsc c -> follow_ok ty (c :: rest) = true.
Proof. intros [->|[->|[->| ->]]]; destruct ty; reflexivity. Qed.

(* the rune at the front of b :: s differs from an ASCII character x when b does *)
Lemma step_neq b s x : N.ltb x 128 = true -> N.eqb b x = false ->
  let '(r, k, s') := stepS (b :: s) in (r =? Z.of_N x) = false.
Proof.
  intros Hx Hb. pose proof (stepS_first b s) as F. destruct (stepS (b :: s)) as [[r k] s'].
  destruct F as [[_ [-> _]]|[_ Hr]]; lia.
Qed.

(* where a token is recorded to stand: at the first byte of its text, or just after the
   opening apostrophe or backtick *)
Definition tok_pos (ty : tokType) (p : Z) : Z := match ty with tStringLiteral | tJSONLiteral => p + 1 | _ => p end.

Definition lexedR (f : nat) (p : Z) (text rest : bytes) (w : Z) (acc : list token) (ty : tokType) (v : bytes) : Prop :=
  exists tok p' k, ttype tok = ty /\ tvalue tok = v /\ tpos tok = tok_pos ty p /\ p' = p + zlen text /\
    tokenize_loopS (S f) (AS p (text ++ rest) w) acc = tokenize_loopS f (AS p' rest k) (tok :: acc).

Ltac first_char c :=
  cbn [tokenize_loopS app]; unfold nextS at 1; cbn [asuf ap]; rewrite (stepS_ascii c) by reflexivity;
  let r1 := eval vm_compute in (ident_start (Z.of_N c)) in change (ident_start (Z.of_N c)) with r1;
  let r2 := eval vm_compute in (assoc_Z (Z.of_N c) basic_tokens) in change (assoc_Z (Z.of_N c) basic_tokens) with r2;
  cbn iota.

Ltac done_tok := eexists _, _, _; split; [|split; [|split; [reflexivity|]]]; [| |reflexivity]; reflexivity.

(* ---- one-character tokens of the table, and two-character operators: anything may follow ---- *)
Lemma lexR_any ty txt f p rest w acc : fixed_text ty = Some txt ->
  match ty with tLbracket | tPipe | tExpref | tNot | tLT | tGT => False | _ => True end ->
  lexedR f p txt rest w acc ty txt.
Proof.
  intros H Hty. unfold lexedR.
  destruct ty; cbn [fixed_text] in H; inversion H; subst txt; try contradiction;
    (eexists _, _, _; split; [|split; [|split; [|split; [|reflexivity]]]]; [reflexivity | reflexivity | cbn; lia | unfold zlen; cbn [length str]; cbn; lia]).
Qed.

(* ---- the first character of a two-character operator, followed by something else ---- *)
Lemma match_single (c : N) second matched single p rest :
  N.ltb second 128 = true ->
  match rest with [] => True | b :: _ => N.eqb b second = false end ->
  exists k, matchOrElseS (Z.of_N c) (Z.of_N second) matched single (AS (p + 1) rest 1) =
            (Token single (encode_rune (Z.of_N c)) p 1, AS (p + 1) rest k).
Proof.
  intros Hs Hr. unfold matchOrElseS, nextS, peekS. cbn [ap aw asuf]. destruct rest as [|b s].
  - cbn [stepS]. assert ((eof =? Z.of_N second) = false) as -> by (unfold eof; lia).
    eexists. cbn [snd]. repeat f_equal; lia.
  - pose proof (step_neq b s second Hs Hr) as N. destruct (stepS (b :: s)) as [[r k] s'].
    rewrite N. eexists. cbn [snd]. repeat f_equal; lia.
Qed.

Lemma lexR_pipe f p rest w acc : follow_ok tPipe rest = true -> lexedR f p [124%N] rest w acc tPipe [124%N].
Proof.
  intros Hf. unfold lexedR. first_char 124%N. cbn -[tokenize_loopS matchOrElseS].
  destruct (match_single 124 124 tOr tPipe p rest eq_refl) as [k Hk].
  { destruct rest; [exact I|]. cbn [follow_ok] in Hf. lia. }
  change 124 with (Z.of_N 124). rewrite Hk. eexists _, _, _. split; [|split; [|split; [|split; [|reflexivity]]]]; [reflexivity | reflexivity | cbn; lia | unfold zlen; cbn; lia].
Qed.

Lemma lexR_expref f p rest w acc : follow_ok tExpref rest = true -> lexedR f p [38%N] rest w acc tExpref [38%N].
Proof.
  intros Hf. unfold lexedR. first_char 38%N. cbn -[tokenize_loopS matchOrElseS].
  destruct (match_single 38 38 tAnd tExpref p rest eq_refl) as [k Hk].
  { destruct rest; [exact I|]. cbn [follow_ok] in Hf. lia. }
  change 38 with (Z.of_N 38). rewrite Hk. eexists _, _, _. split; [|split; [|split; [|split; [|reflexivity]]]]; [reflexivity | reflexivity | cbn; lia | unfold zlen; cbn; lia].
Qed.

Lemma lexR_not f p rest w acc : follow_ok tNot rest = true -> lexedR f p [33%N] rest w acc tNot [33%N].
Proof.
  intros Hf. unfold lexedR. first_char 33%N. cbn -[tokenize_loopS matchOrElseS].
  destruct (match_single 33 61 tNE tNot p rest eq_refl) as [k Hk].
  { destruct rest; [exact I|]. cbn [follow_ok] in Hf. lia. }
  change 33 with (Z.of_N 33). change 61 with (Z.of_N 61). rewrite Hk. eexists _, _, _. split; [|split; [|split; [|split; [|reflexivity]]]]; [reflexivity | reflexivity | cbn; lia | unfold zlen; cbn; lia].
Qed.

Lemma lexR_lt f p rest w acc : follow_ok tLT rest = true -> lexedR f p [60%N] rest w acc tLT [60%N].
Proof.
  intros Hf. unfold lexedR. first_char 60%N. cbn -[tokenize_loopS matchOrElseS].
  destruct (match_single 60 61 tLTE tLT p rest eq_refl) as [k Hk].
  { destruct rest; [exact I|]. cbn [follow_ok] in Hf. lia. }
  change 60 with (Z.of_N 60). change 61 with (Z.of_N 61). rewrite Hk. eexists _, _, _. split; [|split; [|split; [|split; [|reflexivity]]]]; [reflexivity | reflexivity | cbn; lia | unfold zlen; cbn; lia].
Qed.

Lemma lexR_gt f p rest w acc : follow_ok tGT rest = true -> lexedR f p [62%N] rest w acc tGT [62%N].
Proof.
  intros Hf. unfold lexedR. first_char 62%N. cbn -[tokenize_loopS matchOrElseS].
  destruct (match_single 62 61 tGTE tGT p rest eq_refl) as [k Hk].
  { destruct rest; [exact I|]. cbn [follow_ok] in Hf. lia. }
  change 62 with (Z.of_N 62). change 61 with (Z.of_N 61). rewrite Hk. eexists _, _, _. split; [|split; [|split; [|split; [|reflexivity]]]]; [reflexivity | reflexivity | cbn; lia | unfold zlen; cbn; lia].
Qed.

Lemma lexR_lbracket f p rest w acc : follow_ok tLbracket rest = true -> lexedR f p [91%N] rest w acc tLbracket [91%N].
Proof.
  intros Hf. unfold lexedR. first_char 91%N. cbn -[tokenize_loopS consumeLBracketS].
  assert (Hk : exists k, consumeLBracketS (AS (p + 1) rest 1) = (Token tLbracket (str "[") p 1, AS (p + 1) rest k)).
  { unfold consumeLBracketS, nextS, peekS. cbn [ap aw asuf]. destruct rest as [|b s].
    - cbn [stepS]. cbn. eexists. repeat f_equal; lia.
    - cbn [follow_ok] in Hf. apply andb_true_iff in Hf as [H1 H2].
      pose proof (step_neq b s 63 eq_refl ltac:(lia)) as N1. pose proof (step_neq b s 93 eq_refl ltac:(lia)) as N2.
      destruct (stepS (b :: s)) as [[r k] s']. change (Z.of_N 63) with 63 in N1. change (Z.of_N 93) with 93 in N2. rewrite N1, N2.
      eexists. cbn [snd]. repeat f_equal; lia. }
  destruct Hk as [k Hk]. rewrite Hk. eexists _, _, _. split; [|split; [|split; [|split; [|reflexivity]]]]; [reflexivity | reflexivity | cbn; lia | unfold zlen; cbn; lia].
Qed.

Lemma lexR_fixed ty txt f p rest w acc : fixed_text ty = Some txt -> follow_ok ty rest = true -> lexedR f p txt rest w acc ty txt.
Proof.
  intros H Hf.
  destruct ty eqn:Ety; try (apply lexR_any; [exact H | exact I]); cbn [fixed_text] in H; inversion H; subst txt.
  - apply lexR_lbracket; exact Hf.
  - apply lexR_pipe; exact Hf.
  - apply lexR_lt; exact Hf.
  - apply lexR_gt; exact Hf.
  - apply lexR_expref; exact Hf.
  - apply lexR_not; exact Hf.
Qed.

(* ---- numbers ---- *)
(* what the lexer takes as a number token: a minus sign or a digit, then digits
   (a lone minus sign is a number token that the parser then refuses) *)
Definition number_lex (v : bytes) : bool :=
  match v with [] => false | c :: ds => (N.eqb c 45 || is_digit c) && forallb is_digit ds end.

Lemma number_text_lex v : number_text v = true -> number_lex v = true.
Proof.
  destruct v as [|c ds]; [discriminate|]. cbn [number_text number_lex]. destruct (N.eqb c 45); cbn [orb andb].
  - destruct ds; [discriminate | auto].
  - auto.
Qed.

Lemma number_loopS_stop : forall ds fuel p rest w, follow_ok tNumber rest = true -> forallb is_digit ds = true -> (length ds < fuel)%nat ->
  exists k, number_loopS fuel (AS p (ds ++ rest) w) = Ok (AS (p + zlen ds) rest k).
Proof.
  induction ds as [|c ds IH]; intros fuel p rest w Hfo Hd Hf.
  - destruct fuel as [|f]; [cbn in Hf; lia|]. cbn [number_loopS app]. unfold nextS at 1, peekS. cbn [asuf ap].
    destruct rest as [|b s].
    + cbn [stepS]. cbn. eexists. unfold zlen. cbn [length]. rewrite Z.add_0_r. reflexivity.
    + cbn [follow_ok] in Hfo. pose proof (stepS_first b s) as F. destruct (stepS (b :: s)) as [[r k] s'].
      assert ((r <? 48) || (57 <? r) = true) as ->.
      { destruct F as [[_ [-> _]]|[_ Hr]]; [unfold is_digit in Hfo; lia | lia]. }
      eexists. cbn [snd]. unfold zlen. cbn [length]. rewrite Z.add_0_r. reflexivity.
  - destruct fuel as [|f]; [cbn in Hf; lia|]. cbn [forallb] in Hd. apply andb_true_iff in Hd as [Hc Hd].
    assert (Hc128 : N.ltb c 128 = true) by (unfold is_digit in Hc; lia).
    cbn [number_loopS app]. unfold nextS at 1. cbn [asuf ap]. rewrite (stepS_ascii c _ Hc128).
    assert ((Z.of_N c <? 48) || (57 <? Z.of_N c) = false) as -> by (unfold is_digit in Hc; lia).
    destruct (IH f (p + 1) rest 1 Hfo Hd ltac:(cbn in Hf; lia)) as [k Hk]. exists k. rewrite Hk. f_equal. f_equal. unfold zlen. cbn [length]. lia.
Qed.

Lemma lexR_number_lex v f p rest w acc : follow_ok tNumber rest = true -> 0 <= p -> number_lex v = true -> lexedR f p v rest w acc tNumber v.
Proof.
  intros Hfo Hp Hn. unfold lexedR. destruct v as [|c ds]; [discriminate|].
  assert (Hfirst : (Z.of_N c =? 45) || ((48 <=? Z.of_N c) && (Z.of_N c <=? 57)) = true /\ N.ltb c 128 = true /\
                   forallb is_digit ds = true /\ ident_start (Z.of_N c) = false /\ assoc_Z (Z.of_N c) basic_tokens = None).
  { cbn [number_lex] in Hn. apply andb_true_iff in Hn as [Hc Hds]. unfold is_digit in Hc.
    assert (Hc' : c = 45%N \/ (48 <= c <= 57)%N) by lia.
    repeat split; try lia; try exact Hds.
    + rewrite ident_start_ok by lia. unfold is_alpha_Z. lia.
    + rewrite basic_tokens_ok. repeat match goal with |- context [if ?b then _ else _] => destruct b eqn:?; try lia end. reflexivity. }
  destruct Hfirst as [H1 [H2 [H3 [H4 H5]]]].
  destruct (number_loopS_stop ds (S (length ((c :: ds) ++ rest) + Z.to_nat p)) (p + 1) rest 1 Hfo H3
              ltac:(cbn [length app]; rewrite app_length; lia)) as [k Hk].
  assert (Hloop : tokenize_loopS (S f) (AS p ((c :: ds) ++ rest) w) acc =
                  tokenize_loopS f (AS (p + zlen (c :: ds)) rest k) (Token tNumber (c :: ds) p (zlen (c :: ds)) :: acc)).
  { cbn [tokenize_loopS]. unfold nextS at 1. cbn [asuf ap]. change ((c :: ds) ++ rest) with (c :: ds ++ rest) at 1.
    rewrite (stepS_ascii c _ H2). rewrite H4, H5, H1.
    unfold consumeNumberS. cbn [ap aw asuf]. rewrite Hk.
    cbn [bind ap]. replace (p + 1 - 1) with p by lia. rewrite Z.eqb_refl. unfold sliceS.
    assert ((0 <=? p) && (p <=? p + 1 + zlen ds) && (p + 1 + zlen ds <=? p + zlen ((c :: ds) ++ rest)) = true) as ->.
    { unfold zlen. cbn [length app]. rewrite app_length. lia. }
    cbn [bind]. replace (Z.to_nat (p + 1 + zlen ds - p)) with (length (c :: ds)) by (unfold zlen; cbn [length]; lia).
    rewrite firstn_app_exact.
    replace (p + 1 + zlen ds) with (p + zlen (c :: ds)) by (unfold zlen; cbn [length]; lia).
    replace (p + zlen (c :: ds) - p) with (zlen (c :: ds)) by lia. reflexivity. }
  eexists _, _, _. split; [|split; [|split; [|split; [reflexivity | exact Hloop]]]]; try reflexivity; cbn [tpos tok_pos]; lia.
Qed.

Lemma lexR_number v f p rest w acc : follow_ok tNumber rest = true -> 0 <= p -> number_text v = true -> lexedR f p v rest w acc tNumber v.
Proof. intros H1 H2 H3. apply lexR_number_lex; [exact H1 | exact H2 | apply number_text_lex; exact H3]. Qed.

(* ---- identifiers, strings, literals ---- *)
Lemma lexR_unquoted name f p rest w acc : follow_ok tUnquotedIdentifier rest = true -> 0 <= p -> valid_unquoted name = true ->
  lexedR f p name rest w acc tUnquotedIdentifier name.
Proof.
  intros Hfo Hp Hv.
  assert (Hst : stops rest). { destruct rest as [|b s]; [exact I|]. cbn [follow_ok] in Hfo. cbn [stops]. apply negb_true_iff in Hfo. exact Hfo. }
  destruct (lex_unquoted name rest f p w acc Hv Hst Hp) as [k Hk].
  eexists _, _, k. split; [|split; [|split; [|split; [reflexivity | exact Hk]]]]; try reflexivity; cbn [tpos tok_pos]; lia.
Qed.

Lemma lexR_quoted rs f p rest w acc : 0 <= p -> forallb valid_rune rs = true ->
  lexedR f p (marshal_string (string_of_runes rs)) rest w acc tQuotedIdentifier (string_of_runes rs).
Proof.
  intros Hp Hv. rewrite marshal_string_escape by exact Hv.
  assert (Hloop : tokenize_loopS (S f) (AS p ((34%N :: json_escape rs ++ [34%N]) ++ rest) w) acc =
                  tokenize_loopS f (AS (p + zlen (34%N :: json_escape rs ++ [34%N])) rest 1)
                    (Token tQuotedIdentifier (string_of_runes rs) p (zlen (string_of_runes rs)) :: acc)).
  { first_char 34%N. cbn -[tokenize_loopS consumeQuotedIdentifierS json_escape].
    unfold consumeQuotedIdentifierS. change 34 with (Z.of_N 34).
    rewrite <- app_assoc. cbn [app].
    rewrite (consumeUntilS_clean 34 (p + 1) (json_escape rs) rest 1) by (first [reflexivity | lia | (apply clean_json_escape; exact Hv)]).
    cbn [bind]. rewrite (unquote_escape rs Hv). cbn [bind ap].
    replace (p + 1 - 1) with p by lia.
    replace (p + 1 + zlen (json_escape rs) + 1) with (p + zlen (34%N :: json_escape rs ++ [34%N])) by (unfold zlen; cbn [length]; rewrite app_length; cbn [length]; lia).
    reflexivity. }
  eexists _, _, _. split; [|split; [|split; [|split; [reflexivity | exact Hloop]]]]; try reflexivity; cbn [tpos tok_pos]; lia.
Qed.

Lemma lexR_raw x f p rest w acc : 0 <= p -> raw_ok x = true ->
  lexedR f p (39%N :: raw_escape x ++ [39%N]) rest w acc tStringLiteral x.
Proof.
  intros Hp Hok.
  assert (Hloop : tokenize_loopS (S f) (AS p ((39%N :: raw_escape x ++ [39%N]) ++ rest) w) acc =
                  tokenize_loopS f (AS (p + zlen (39%N :: raw_escape x ++ [39%N])) rest 1)
                    (Token tStringLiteral x (p + 1) (zlen x) :: acc)).
  { first_char 39%N. cbn -[tokenize_loopS consumeRawStringLiteralS raw_escape].
    rewrite <- app_assoc. cbn [app].
    rewrite consumeRawS_scan by lia. rewrite raw_scan_bytes by lia.
    rewrite raw_escape_roundtrip by exact Hok. cbn [bind].
    replace (p + 1 + zlen (raw_escape x ++ 39%N :: rest) - zlen rest) with (p + zlen (39%N :: raw_escape x ++ [39%N]))
      by (unfold zlen; cbn [length]; rewrite !app_length; cbn [length]; lia).
    reflexivity. }
  eexists _, _, _. split; [|split; [|split; [|split; [reflexivity | exact Hloop]]]]; try reflexivity; cbn [tpos tok_pos]; lia.
Qed.

Lemma lexR_literal t f p rest w acc : 0 <= p -> paired t = true ->
  lexedR f p (96%N :: lit_escape t ++ [96%N]) rest w acc tJSONLiteral t.
Proof.
  intros Hp Hok.
  assert (Hloop : tokenize_loopS (S f) (AS p ((96%N :: lit_escape t ++ [96%N]) ++ rest) w) acc =
                  tokenize_loopS f (AS (p + zlen (96%N :: lit_escape t ++ [96%N])) rest 1)
                    (Token tJSONLiteral t (p + 1) (zlen t) :: acc)).
  { first_char 96%N. cbn -[tokenize_loopS consumeLiteralS lit_escape].
    unfold consumeLiteralS. change 96 with (Z.of_N 96) at 1.
    rewrite <- app_assoc. cbn [app].
    rewrite (consumeUntilS_clean 96 (p + 1) (lit_escape t) rest 1) by (first [reflexivity | lia | (apply (lit_escape_clean (length t)); [lia | exact Hok])]).
    cbn [bind ap]. rewrite lit_unescape.
    replace (p + 1 + zlen (lit_escape t) + 1) with (p + zlen (96%N :: lit_escape t ++ [96%N])) by (unfold zlen; cbn [length]; rewrite app_length; cbn [length]; lia).
    reflexivity. }
  eexists _, _, _. split; [|split; [|split; [|split; [reflexivity | exact Hloop]]]]; try reflexivity; cbn [tpos tok_pos]; lia.
Qed.

(* ---- any token, followed by anything that cannot extend it ---- *)
Lemma lexR_token t f p rest w acc : follow_ok (ttype t) rest = true -> 0 <= p -> lexable t = true ->
  lexedR f p (spell_tok t) rest w acc (ttype t) (tvalue t).
Proof.
  intros Hfo Hp Hl. unfold lexable, spell_tok in *. destruct (ttype t) eqn:Ety; cbn [fixed_text] in Hl; try discriminate;
    try (apply bytes_eqb_eq in Hl; rewrite Hl; apply lexR_fixed; [reflexivity | exact Hfo]).
  - apply lexR_number; assumption.
  - apply lexR_unquoted; assumption.
  - unfold utf8_ok in Hl. apply andb_true_iff in Hl as [H1 H2]. apply bytes_eqb_eq in H2.
    rewrite <- H2 at 1. rewrite <- H2 at 2. apply lexR_quoted; assumption.
  - apply andb_true_iff in Hl as [Hl _]. apply lexR_literal; assumption.
  - apply lexR_raw; assumption.
Qed.

(* ---- whole texts ---- *)
Lemma lex_ws_run0 : forall ws f p rest k acc, Forall wsc ws ->
  exists k', tokenize_loopS (length ws + f) (AS p (ws ++ rest) k) acc = tokenize_loopS f (AS (p + zlen ws) rest k') acc.
Proof.
  intros ws f p rest k acc Hall. destruct ws as [|c ws'].
  - exists k. cbn [length Nat.add app]. unfold zlen. cbn [length]. rewrite Z.add_0_r. reflexivity.
  - exists 1. apply lex_ws_run; [exact Hall | discriminate].
Qed.

(* every token is lexable, followed by a (possibly empty) run of whitespace, and what
   comes after it — the whitespace or, if there is none, the next token — cannot extend it *)
Fixpoint adj_ok (l : list (token * bytes)) : Prop :=
  match l with
  | [] => True
  | (t, ws) :: r => lexable t = true /\ Forall wsc ws /\ follow_ok (ttype t) (ws ++ text_ws r) = true /\ adj_ok r
  end.

Lemma lex_text_adj : forall l f p w acc, adj_ok l -> 0 <= p -> (steps l < f)%nat ->
  exists out, tokenize_loopS f (AS p (text_ws l) w) acc = Ok (rev acc ++ out ++ [Token tEOF [] (p + zlen (text_ws l)) 0]) /\
              Forall2 same_tv out (map fst l).
Proof.
  induction l as [|[t ws] l IH]; intros f p w acc Hl Hp Hf.
  - destruct f as [|f]; [cbn in Hf; lia|]. exists []. split; [|constructor]. cbn [text_ws map concat]. rewrite lex_eof.
    cbn [rev app]. unfold zlen. cbn [length]. rewrite Z.add_0_r. reflexivity.
  - cbn [adj_ok] in Hl. destruct Hl as [Ht [Hws [Hfo Hl']]]. cbn [steps fold_right snd] in Hf. fold (steps l) in Hf.
    rewrite text_ws_cons.
    assert (Hfuel : exists f', f = S (length ws + f') /\ (steps l < f')%nat).
    { exists (f - S (length ws))%nat. split; lia. }
    destruct Hfuel as [f' [-> Hf']].
    destruct (lexR_token t (length ws + f') p (ws ++ text_ws l) w acc Hfo Hp Ht) as [tok [p' [k [T1 [T2 [T3 [Hp' Hloop]]]]]]].
    rewrite Hloop.
    destruct (lex_ws_run0 ws f' p' (text_ws l) k (tok :: acc) Hws) as [k' Hrun]. rewrite Hrun.
    destruct (IH f' (p' + zlen ws) k' (tok :: acc) Hl'
                 ltac:(pose proof (Zle_0_nat (length (spell_tok t))); pose proof (Zle_0_nat (length ws)); unfold zlen in *; lia) Hf') as [out [Hout Hsame]].
    exists (tok :: out). split.
    + rewrite Hout. cbn [rev]. rewrite <- !app_assoc. cbn [app].
      replace (p' + zlen ws + zlen (text_ws l)) with (p + zlen (spell_tok t ++ ws ++ text_ws l)); [reflexivity|].
      subst p'. unfold zlen. rewrite !app_length. lia.
    + cbn [map fst]. constructor; [split; assumption | exact Hsame].
Qed.

Lemma adj_lexable l : adj_ok l -> Forall (fun tw : token * bytes => lexable (fst tw) = true) l.
Proof. induction l as [|[t ws] l IH]; intros H; [constructor|]. cbn [adj_ok] in H. destruct H as [H1 [_ [_ H4]]]. constructor; [exact H1 | apply IH; exact H4]. Qed.

Lemma steps_len_adj l : adj_ok l -> (steps l <= length (text_ws l))%nat.
Proof.
  induction l as [|[t w] l IH]; intros H; [cbn; lia|]. cbn [adj_ok] in H. destruct H as [Ht [_ [_ Hl]]].
  rewrite text_ws_cons, !app_length. cbn [steps fold_right fst snd] in *. fold (steps l). specialize (IH Hl).
  pose proof (spell_tok_nonempty t Ht) as Hn. destruct (spell_tok t); [congruence|]. cbn [length]. lia.
Qed.

(* a text of well-separated tokens following whitespace is one too *)
Lemma ws_text_adj l : ws_text_ok l -> adj_ok l.
Proof.
  induction 1 as [|[t ws] l [Ht [Hne Hws]] _ IH]; [exact I|]. cbn [fst snd] in *. cbn [adj_ok].
  split; [exact Ht|]. split; [exact Hws|]. split; [|exact IH].
  destruct ws as [|c ws']; [congruence|]. inversion Hws; subst. apply follow_ws. assumption.
Qed.

(* the compact layout: a space only where the next token would otherwise run into this one *)
Fixpoint compact (l : list token) : list (token * bytes) :=
  match l with
  | [] => []
  | t :: r => (t, if follow_ok (ttype t) (text_ws (compact r)) then [] else [32%N]) :: compact r
  end.

Lemma map_fst_compact l : map fst (compact l) = l.
Proof. induction l as [|t l IH]; [reflexivity|]. cbn [compact map fst]. rewrite IH. reflexivity. Qed.

Lemma compact_adj l : Forall (fun t => lexable t = true) l -> adj_ok (compact l).
Proof.
  induction 1 as [|t l Ht _ IH]; [exact I|]. cbn [compact adj_ok]. split; [exact Ht|].
  destruct (follow_ok (ttype t) (text_ws (compact l))) eqn:E.
  - split; [constructor|]. split; [exact E | exact IH].
  - split; [constructor; [left; reflexivity | constructor]|]. split; [|exact IH]. apply follow_ws. left. reflexivity.
Qed.

Definition compact_text (l : list token) : bytes := text_ws (compact l).

Section Text.
Variable lit_text : value -> bytes.
Hypothesis lit_ok : lit_spec lit_text.

(* the lexer on any text made of optional leading whitespace and well-separated tokens *)
Theorem tokenize_text_adj lead l : Forall wsc lead -> adj_ok l ->
  exists out, tokenize (lead ++ text_ws l) = Ok (out ++ [Token tEOF [] (zlen (lead ++ text_ws l)) 0]) /\ Forall2 same_tv out (map fst l).
Proof.
  intros Hlead Hl. rewrite tokenize_view. unfold tokenizeS.
  pose proof (steps_len_adj l Hl) as Hs.
  destruct (lex_ws_run0 lead (S (S (length (text_ws l)))) 0 (text_ws l) 0 [] Hlead) as [k' Hrun].
  replace (S (S (length (lead ++ text_ws l)))) with (length lead + S (S (length (text_ws l))))%nat by (rewrite app_length; lia).
  rewrite Hrun.
  destruct (lex_text_adj l (S (S (length (text_ws l)))) (0 + zlen lead) k' [] Hl ltac:(unfold zlen; lia) ltac:(lia)) as [out [Ho Hsame]].
  exists out. rewrite Ho. cbn [rev app]. split; [|exact Hsame]. repeat f_equal. unfold zlen. rewrite app_length. lia.
Qed.

(* Compile on any such text of the tokens of a well-precedenced tree *)
Theorem compile_text_adj e lead l : wp e = true -> npos e = true -> Forall wsc lead -> adj_ok l -> map fst l = render lit_text e ->
  Api.compile (lead ++ text_ws l) = Ok (Grammar.compile e).
Proof.
  intros Hw Hnp Hlead Hl Hr. unfold Api.compile, parse.
  destruct (tokenize_text_adj lead l Hlead Hl) as [out [Ho Hs]]. rewrite Ho. cbn [bind]. rewrite Hr in Hs.
  apply (parse_tokens_complete lit_text lit_ok e _ Hw Hnp).
  - apply noeof_eof_wf; [|reflexivity]. exact (same_tv_noeof _ _ Hs (render_noeof lit_text e)).
  - intros k t Hk. rewrite Nat.add_0_l.
    assert (H2 : Forall2 same_tv (out ++ [Token tEOF [] (zlen (lead ++ text_ws l)) 0]) (render lit_text e ++ [tk tEOF []])).
    { apply Forall2_app; [exact Hs|]. constructor; [split; reflexivity | constructor]. }
    destruct (Forall2_nth _ _ _ H2 k t Hk) as [t' [Hk' [T1 T2]]]. exists t'. split; [exact Hk'|]. split; [exact T1|].
    rewrite T2. apply veq_self. intros Ety.
    assert (Hin : In t (map fst l)).
    { rewrite Hr. apply nth_error_In in Hk. apply in_app_or in Hk as [Hk|[<-|[]]]; [exact Hk | discriminate Ety]. }
    apply in_map_iff in Hin as [[t0 w0] [E0 Hin]]. cbn [fst] in E0. subst t0.
    pose proof (adj_lexable l Hl) as Hlx. rewrite Forall_forall in Hlx. pose proof (Hlx _ Hin) as Hlex. cbn [fst] in Hlex.
    unfold lexable in Hlex. rewrite Ety in Hlex. apply andb_true_iff in Hlex as [_ Hv]. unfold json_valid in Hv.
    destruct (json_unmarshal (tvalue t)); [discriminate | discriminate Hv].
Qed.

(* layout is insignificant: two texts with the same tokens, whatever whitespace (or none,
   where the tokens stay apart) lies before, between and after them, compile to the same AST *)
Theorem layout_insignificant e lead1 l1 lead2 l2 : wp e = true -> npos e = true ->
  Forall wsc lead1 -> adj_ok l1 -> Forall wsc lead2 -> adj_ok l2 ->
  map fst l1 = render lit_text e -> map fst l2 = render lit_text e ->
  Api.compile (lead1 ++ text_ws l1) = Api.compile (lead2 ++ text_ws l2).
Proof. intros. rewrite (compile_text_adj e lead1 l1), (compile_text_adj e lead2 l2); auto. Qed.

Theorem search_text_adj (ord : obj -> obj) (ord_perm : forall m, Permutation.Permutation (ord m) m) e lead l d :
  wp e = true -> npos e = true -> Forall wsc lead -> adj_ok l -> map fst l = render lit_text e ->
  sem_ok e = true -> plain d = true ->
  Api.search ord (lead ++ text_ws l) d = eval ord e d.
Proof.
  intros Hw Hnp Hlead Hl Hr Hs Hd. unfold Api.search. pose proof (compile_text_adj e lead l Hw Hnp Hlead Hl Hr) as Hc. unfold Api.compile in Hc.
  rewrite Hc. cbn [bind]. apply (search_compiled_is_eval ord ord_perm e d Hs Hd).
Qed.

(* the compact text of every well-precedenced tree compiles to the tree *)
Theorem compile_compact_text e : wp e = true -> npos e = true -> texty lit_text e = true ->
  Api.compile (compact_text (render lit_text e)) = Ok (Grammar.compile e).
Proof.
  intros Hw Hnp Ht. change (compact_text (render lit_text e)) with ([] ++ text_ws (compact (render lit_text e))).
  apply compile_text_adj; [exact Hw | exact Hnp | constructor | apply compact_adj; apply render_lexable; assumption | apply map_fst_compact].
Qed.

End Text.

End WithNum.

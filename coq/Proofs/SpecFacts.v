(* SpecFacts.v — facts about the specification's eval that the property files
   state at the level of the interpreter (through Proofs/InterpRefine.v). *)
From JM Require Import Model.Base Model.Num Model.Value Model.Functions Model.Interp.
From JM Require Import Spec.Grammar Spec.PySlice Spec.Semantics.
From JM Require Import Proofs.ValueFacts Proofs.FunFacts Proofs.InterpRefine.
From Coq Require Import ZifyBool Permutation.

Section WithNum.
Context {NumO : NumOps}.
Variable ord : obj -> obj.

(* ---- induction on the size of an expression ---- *)
Lemma expr_size_ind (P : expr -> Prop) :
  (forall e, (forall e', (esize e' < esize e)%nat -> P e') -> P e) -> forall e, P e.
Proof.
  intros H e. assert (G : forall n e, (esize e < n)%nat -> P e).
  { induction n as [|n IH]; intros e0 Hn; [lia|]. apply H. intros e' He'. apply IH. lia. }
  apply (G (S (esize e))). lia.
Qed.

Lemma esize_in_list x es : In x es -> (esize x <= fold_right (fun x a => esize x + a) 0 es)%nat.
Proof. induction es as [|y es IH]; intros H; [destruct H|]. cbn. destruct H as [->|H]; [lia|]. specialize (IH H). lia. Qed.
Lemma esize_in_kvs (kv : bool * bytes * expr) kvs :
  In kv kvs -> (esize (snd kv) <= fold_right (fun kv a => esize (snd kv) + a) 0 kvs)%nat.
Proof. induction kvs as [|y kvs IH]; intros H; [destruct H|]. cbn. destruct H as [->|H]; [lia|]. specialize (IH H). lia. Qed.
Definition arg_expr (a : arg) : expr := match a with AExpr x => x | ARef x => x end.
Lemma esize_in_args a args :
  In a args ->
  (esize (arg_expr a) <=
   fold_right (fun a acc => (match a with AExpr x => esize x | ARef x => esize x end) + acc) 0 args)%nat.
Proof.
  induction args as [|y args IH]; intros H; [destruct H|]. cbn. destruct H as [->|H].
  - destruct a; cbn; lia.
  - specialize (IH H). lia.
Qed.

(* ---- eval never panics ---- *)
Definition np {A} (x : outcome A) : Prop := x <> Panic.

Lemma np_bind {A B} (x : outcome A) (f : A -> outcome B) :
  np x -> (forall a, x = Ok a -> np (f a)) -> np (bind x f).
Proof. unfold np. destruct x; cbn; intros H1 H2; try congruence. apply H2. reflexivity. Qed.

Lemma np_mapM {A B} (f : A -> outcome B) l : (forall x, In x l -> np (f x)) -> np (mapM f l).
Proof.
  induction l as [|x l IH]; intros H; cbn; [discriminate|].
  apply np_bind; [apply H; left; reflexivity|]. intros y _.
  apply np_bind; [apply IH; intros z Hz; apply H; right; exact Hz|]. intros ys _. discriminate.
Qed.

Definition sarg_np (a : sarg) : Prop := match a with SVal _ => True | SRef g => forall v, np (g v) end.

Lemma np_by_keys g l : (forall v, np (g v)) -> np (by_keys g l).
Proof.
  intros Hg. unfold by_keys. destruct l as [|x l]; [discriminate|].
  apply np_bind; [apply Hg|]. intros k0 _. destruct k0; try discriminate.
  - apply np_bind; [|discriminate]. apply np_mapM. intros y _. unfold num_key.
    apply np_bind; [apply Hg|]. intros k _. destruct k; discriminate.
  - apply np_bind; [|discriminate]. apply np_mapM. intros y _. unfold str_key.
    apply np_bind; [apply Hg|]. intros k _. destruct k; discriminate.
Qed.

Ltac np_tac :=
  repeat match goal with
         | |- np (if ?c then _ else _) => destruct c
         | |- np (Ok _) => discriminate
         | |- np (Err _) => discriminate
         | |- np (match ?x with _ => _ end) => destruct x
         end.

Lemma np_apply_function name args : Forall sarg_np args -> np (apply_function ord name args).
Proof.
  intros Hall. unfold apply_function.
  destruct (name_is name _); [discriminate|].
  destruct (name_is name _); [discriminate|].
  destruct args as [|a1 [|a2 [|a3 rest]]]; try discriminate.
  - destruct a1 as [v|g]; [|discriminate]. destruct v; np_tac.
  - inversion Hall as [|? ? H1 H2]; subst. inversion H2 as [|? ? H3 _]; subst.
    destruct a1 as [v|g]; destruct a2 as [w|h]; try discriminate.
    + np_tac.
    + destruct v; try discriminate. np_tac; try discriminate.
      all: apply np_bind; [apply np_by_keys; exact H3 | intros ks _; destruct ks; discriminate].
    + destruct w; try discriminate. np_tac; try discriminate.
      apply np_bind; [apply np_mapM; intros x _; apply H1 | discriminate].
  - destruct a1 as [v|g]; [destruct v|]; try discriminate;
      destruct a2 as [w|h]; try discriminate; try (destruct w; discriminate).
    all: try (destruct v; discriminate).
Qed.

Theorem eval_no_panic : forall e v, np (eval ord e v).
Proof.
  apply (expr_size_ind (fun e => forall v, np (eval ord e v))).
  intros e IH v.
  assert (IHl : forall l, (osize l < esize e)%nat \/ l = None -> np (lhs_eval ord l v)).
  { intros [x|] H; cbn; [apply IH; destruct H as [H|H]; [exact H | discriminate] | discriminate]. }
  assert (IHr : forall r el, (rsize r < esize e)%nat \/ r = RNone -> np (rhs_eval ord r el)).
  { intros [|x|x] el H; cbn; try discriminate; apply IH; destruct H as [H|H]; try exact H; discriminate. }
  assert (Hproj : forall r xs, ((rsize r < esize e)%nat \/ r = RNone) ->
                               np (ys <- mapM (rhs_eval ord r) xs ;; Ok (VArr (drop_nulls ys)))).
  { intros r xs H. apply np_bind; [|discriminate]. apply np_mapM. intros x _. apply IHr. exact H. }
  destruct e as [q name | | lv | s | x | es | kvs | fname args | x | l i | l a b c r | l r | l r | l c r | l r
                 | l r | l r | l r | l r | op l r].
  - cbn. discriminate.
  - cbn. discriminate.
  - cbn. discriminate.
  - cbn. discriminate.
  - change (eval ord (EParen x) v) with (eval ord x v). apply IH. cbn. lia.
  - rewrite eval_mslist. destruct v; try discriminate.
    all: apply np_bind; [|discriminate]; apply np_mapM; intros x Hx; apply IH;
      pose proof (esize_in_list x es Hx); cbn; lia.
  - rewrite eval_mshash. destruct v; try discriminate.
    all: apply np_bind; [|discriminate]; apply np_mapM; intros kv Hkv;
      (apply np_bind; [apply IH; pose proof (esize_in_kvs kv kvs Hkv); cbn; lia | discriminate]).
  - rewrite eval_call. apply np_bind.
    + apply np_mapM. intros a Ha. pose proof (esize_in_args a args Ha) as Hs.
      destruct a as [x|x]; cbn [eval_arg]; [|discriminate].
      apply np_bind; [apply IH; cbn in *; lia | discriminate].
    + intros xs Hxs. unfold spec_call. destruct (well_typed fname xs); [|discriminate].
      apply np_apply_function.
      eapply mapM_ok_forall; [|exact Hxs]. intros a sa Ha Hsa. pose proof (esize_in_args a args Ha) as Hs.
      destruct a as [x|x]; cbn [eval_arg] in Hsa.
      * destruct (eval ord x v); cbn in Hsa; try discriminate. inversion Hsa. exact I.
      * inversion Hsa. cbn. intros w. apply IH. cbn in *. lia.
  - change (eval ord (ENot x) v) with (y <- eval ord x v ;; Ok (VBool (falsy y))).
    apply np_bind; [apply IH; cbn; lia | discriminate].
  - change (eval ord (EIndex l i) v)
      with (x <- lhs_eval ord l v ;;
            match x with
            | VArr xs => if two63 <=? zlen xs then OutOfFuel else Ok (index_list xs i)
            | _ => Ok VNull
            end).
    apply np_bind; [apply IHl; destruct l; [left; cbn; lia | right; reflexivity]|].
    intros x _. destruct x; try discriminate. destruct (two63 <=? zlen l0); discriminate.
  - change (eval ord (ESlice l a b c r) v)
      with (x <- lhs_eval ord l v ;;
            match x with
            | VArr xs =>
              if two63 <=? zlen xs then OutOfFuel else
              match py_slice xs a b (cjoin c) with
              | Some ys => ys0 <- mapM (rhs_eval ord r) ys ;; Ok (VArr (drop_nulls ys0))
              | None => Err EEval
              end
            | _ => Ok VNull
            end).
    apply np_bind; [apply IHl; destruct l; [left; cbn; lia | right; reflexivity]|].
    intros x _. destruct x; try discriminate. destruct (two63 <=? zlen l0); [discriminate|].
    destruct (py_slice l0 a b (cjoin c)); [|discriminate]. apply Hproj. destruct r; [right; reflexivity | left; cbn; lia | left; cbn; lia].
  - change (eval ord (EListProj l r) v)
      with (x <- lhs_eval ord l v ;;
            match x with
            | VArr xs => ys0 <- mapM (rhs_eval ord r) xs ;; Ok (VArr (drop_nulls ys0))
            | _ => Ok VNull
            end).
    apply np_bind; [apply IHl; destruct l; [left; cbn; lia | right; reflexivity]|].
    intros x _. destruct x; try discriminate. apply Hproj. destruct r; [right; reflexivity | left; cbn; lia | left; cbn; lia].
  - change (eval ord (EFlatten l r) v)
      with (x <- lhs_eval ord l v ;;
            match x with
            | VArr xs => ys0 <- mapM (rhs_eval ord r) (flatten1 xs) ;; Ok (VArr (drop_nulls ys0))
            | _ => Ok VNull
            end).
    apply np_bind; [apply IHl; destruct l; [left; cbn; lia | right; reflexivity]|].
    intros x _. destruct x; try discriminate. apply Hproj. destruct r; [right; reflexivity | left; cbn; lia | left; cbn; lia].
  - change (eval ord (EFilter l c r) v)
      with (x <- lhs_eval ord l v ;;
            match x with
            | VArr xs => ys <- mapM (fun el => t <- eval ord c el ;; if truthy t then rhs_eval ord r el else Ok VNull) xs ;;
                         Ok (VArr (drop_nulls ys))
            | _ => Ok VNull
            end).
    apply np_bind; [apply IHl; destruct l; [left; cbn; lia | right; reflexivity]|].
    intros x _. destruct x; try discriminate. apply np_bind; [|discriminate]. apply np_mapM. intros el _.
    apply np_bind; [apply IH; cbn; destruct l; cbn; lia|]. intros t _. destruct (truthy t); [|discriminate].
    apply IHr. destruct r; [right; reflexivity | left; cbn; lia | left; cbn; lia].
  - change (eval ord (EValProj l r) v)
      with (x <- lhs_eval ord l v ;;
            match x with
            | VObj m => ys0 <- mapM (rhs_eval ord r) (map snd (ord m)) ;; Ok (VArr (drop_nulls ys0))
            | _ => Ok VNull
            end).
    apply np_bind; [apply IHl; destruct l; [left; cbn; lia | right; reflexivity]|].
    intros x _. destruct x; try discriminate. apply Hproj. destruct r; [right; reflexivity | left; cbn; lia | left; cbn; lia].
  - change (eval ord (ESub l r) v) with (x <- eval ord l v ;; eval ord r x).
    apply np_bind; [apply IH; cbn; lia | intros x _; apply IH; cbn; lia].
  - change (eval ord (EPipe l r) v) with (x <- eval ord l v ;; eval ord r x).
    apply np_bind; [apply IH; cbn; lia | intros x _; apply IH; cbn; lia].
  - change (eval ord (EOr l r) v) with (x <- eval ord l v ;; if truthy x then Ok x else eval ord r v).
    apply np_bind; [apply IH; cbn; lia | intros x _; destruct (truthy x); [discriminate | apply IH; cbn; lia]].
  - change (eval ord (EAnd l r) v) with (x <- eval ord l v ;; if truthy x then eval ord r v else Ok x).
    apply np_bind; [apply IH; cbn; lia | intros x _; destruct (truthy x); [apply IH; cbn; lia | discriminate]].
  - cbn [eval]. apply np_bind; [apply IH; cbn; lia|]. intros x _.
    apply np_bind; [apply IH; cbn; lia|]. intros y _.
    destruct op; try discriminate; destruct x; try discriminate; destruct y; discriminate.
Qed.

(* the core fragment of C01 *)
Fixpoint core (e : expr) : bool :=
  match e with
  | EIdent _ _ | ECurrent | ELit _ | ERaw _ => true
  | EParen x => core x
  | EMSList es => forallb core es
  | EMSHash kvs => forallb (fun kv : bool * bytes * expr => core (snd kv)) kvs
  | EIndex (Some l) _ => core l
  | EIndex None _ => true
  | ESub l r | EPipe l r => core l && core r
  | _ => false
  end.

(* on the core fragment evaluation never fails *)
Definition ok_or_huge (x : outcome value) : Prop := (exists r, x = Ok r) \/ x = OutOfFuel.

Lemma ooh_bind (x : outcome value) (f : value -> outcome value) :
  ok_or_huge x -> (forall a, x = Ok a -> ok_or_huge (f a)) -> ok_or_huge (bind x f).
Proof. intros [[r ->]| ->] H; cbn; [apply H; reflexivity | right; reflexivity]. Qed.

Lemma ooh_mapM {A} (f : A -> outcome value) l :
  (forall x, In x l -> ok_or_huge (f x)) -> (exists ys, mapM f l = Ok ys) \/ mapM f l = OutOfFuel.
Proof.
  induction l as [|x l IH]; intros H; cbn; [left; eexists; reflexivity|].
  destruct (H x (or_introl eq_refl)) as [[y ->] | ->]; cbn; [|right; reflexivity].
  destruct IH as [[ys ->] | ->]; cbn; [intros z Hz; apply H; right; exact Hz | left; eexists; reflexivity | right; reflexivity].
Qed.

Theorem eval_core_total : forall e v, core e = true -> ok_or_huge (eval ord e v).
Proof.
  apply (expr_size_ind (fun e => forall v, core e = true -> ok_or_huge (eval ord e v))).
  intros e IH v Hc.
  destruct e as [q name | | lv | s | x | es | kvs | fname args | x | l i | l a b c r | l r | l r | l c r | l r
                 | l r | l r | l r | l r | op l r]; try discriminate.
  - left. eexists. reflexivity.
  - left. eexists. reflexivity.
  - left. eexists. reflexivity.
  - left. eexists. reflexivity.
  - change (eval ord (EParen x) v) with (eval ord x v). apply IH; [cbn; lia | exact Hc].
  - rewrite eval_mslist. cbn [core] in Hc. rewrite forallb_forall in Hc.
    assert (Hm : (exists ys, mapM (fun x => eval ord x v) es = Ok ys) \/ mapM (fun x => eval ord x v) es = OutOfFuel).
    { apply ooh_mapM. intros x Hx. apply IH; [pose proof (esize_in_list x es Hx); cbn; lia | auto]. }
    destruct v; try (left; eexists; reflexivity);
      (destruct Hm as [[ys ->] | ->]; cbn; [left; eexists; reflexivity | right; reflexivity]).
  - rewrite eval_mshash. cbn [core] in Hc. rewrite forallb_forall in Hc.
    match goal with |- context [mapM ?F kvs] =>
      assert (Hm : (exists ys, mapM F kvs = Ok ys) \/ mapM F kvs = OutOfFuel) end.
    { clear - IH Hc. induction kvs as [|kv kvs IHk]; cbn; [left; eexists; reflexivity|].
      destruct (IH (snd kv) ltac:(cbn; lia) v (Hc kv (or_introl eq_refl))) as [[y ->] | ->]; cbn; [|right; reflexivity].
      destruct IHk as [[ys ->] | ->]; cbn; [| |left; eexists; reflexivity | right; reflexivity].
      - intros e' He'. apply IH. cbn in *. lia.
      - intros kv' Hkv'. apply Hc. right. exact Hkv'. }
    destruct v; try (left; eexists; reflexivity);
      (destruct Hm as [[ys ->] | ->]; cbn; [left; eexists; reflexivity | right; reflexivity]).
  - cbn [core] in Hc.
    change (eval ord (EIndex l i) v)
      with (x <- lhs_eval ord l v ;;
            match x with
            | VArr xs => if two63 <=? zlen xs then OutOfFuel else Ok (index_list xs i)
            | _ => Ok VNull
            end).
    apply ooh_bind.
    + destruct l as [x|]; cbn; [apply IH; [cbn; lia | exact Hc] | left; eexists; reflexivity].
    + intros x _. destruct x; try (left; eexists; reflexivity).
      destruct (two63 <=? zlen l0); [right; reflexivity | left; eexists; reflexivity].
  - cbn [core] in Hc. apply andb_true_iff in Hc as [H1 H2].
    change (eval ord (ESub l r) v) with (x <- eval ord l v ;; eval ord r x).
    apply ooh_bind; [apply IH; [cbn; lia | exact H1] | intros x _; apply IH; [cbn; lia | exact H2]].
  - cbn [core] in Hc. apply andb_true_iff in Hc as [H1 H2].
    change (eval ord (EPipe l r) v) with (x <- eval ord l v ;; eval ord r x).
    apply ooh_bind; [apply IH; [cbn; lia | exact H1] | intros x _; apply IH; [cbn; lia | exact H2]].
Qed.

(* the clauses of C01, as consequences of the definition of eval *)
Lemma eval_index_array l i v xs :
  eval ord l v = Ok (VArr xs) -> zlen xs < two63 ->
  eval ord (EIndex (Some l) i) v =
  Ok (let j := if i <? 0 then i + zlen xs else i in
      if (0 <=? j) && (j <? zlen xs) then nth (Z.to_nat j) xs VNull else VNull).
Proof.
  intros E Hl. cbn [eval]. rewrite E. cbn [bind].
  destruct (two63 <=? zlen xs) eqn:Eh; [lia | reflexivity].
Qed.

Lemma eval_index_other l i v x :
  eval ord l v = Ok x -> (forall xs, x <> VArr xs) -> eval ord (EIndex (Some l) i) v = Ok VNull.
Proof.
  intros E Hn. cbn [eval]. rewrite E. cbn [bind]. destruct x; try reflexivity. exfalso. eapply Hn. reflexivity.
Qed.

Lemma eval_multiselect_null es kvs :
  eval ord (EMSList es) VNull = Ok VNull /\ eval ord (EMSHash kvs) VNull = Ok VNull.
Proof. rewrite eval_mslist, eval_mshash. split; reflexivity. Qed.

Lemma eval_mslist_nonnull es v :
  v <> VNull -> eval ord (EMSList es) v = (ys <- mapM (fun x => eval ord x v) es ;; Ok (VArr ys)).
Proof. intros H. rewrite eval_mslist. destruct v; try reflexivity. contradiction. Qed.

End WithNum.

(* ProjFacts.v — facts about projections used by C02. *)
From JM Require Import Model.Base Model.Num Model.Value.
From JM Require Import Spec.Grammar Spec.Semantics Proofs.ValueFacts.
From Coq Require Import Permutation.

Section WithNum.
Context {NumO : NumOps}.
Variable ord : obj -> obj.
Hypothesis ord_perm : forall m, Permutation (ord m) m.

Lemma flatten1_concat (xs : list value) :
  flatten1 xs = concat (map (fun x => match x with VArr inner => inner | _ => [x] end) xs).
Proof. unfold flatten1. apply flat_map_concat_map. Qed.

Lemma drop_nulls_no_null (ys : list value) : Forall (fun y => y <> VNull) (drop_nulls ys).
Proof.
  apply Forall_forall. intros y Hy. unfold drop_nulls in Hy. apply filter_In in Hy as [_ H].
  intros ->. discriminate.
Qed.

(* mapM over a permuted list gives a permuted result *)
Lemma mapM_perm {A B} (g : A -> outcome B) l l' ys :
  Permutation l l' -> mapM g l = Ok ys -> exists zs, mapM g l' = Ok zs /\ Permutation ys zs.
Proof.
  intros Hp. revert ys. induction Hp as [|x l l' Hp IH|x y l|l l' l'' H1 IH1 H2 IH2]; intros ys Hy.
  - exists ys. split; [exact Hy | apply Permutation_refl].
  - cbn in *. destruct (g x) as [b| | |]; cbn in *; try discriminate.
    destruct (mapM g l) as [bs| | |] eqn:E; cbn in *; try discriminate. inversion Hy; subst.
    destruct (IH bs eq_refl) as [zs [Ez Pz]]. rewrite Ez. cbn. exists (b :: zs). split; [reflexivity | constructor; exact Pz].
  - cbn in *. destruct (g y) as [b| | |]; cbn in *; try discriminate.
    destruct (g x) as [a| | |]; cbn in *; try discriminate.
    destruct (mapM g l) as [bs| | |]; cbn in *; try discriminate. inversion Hy; subst.
    exists (a :: b :: bs). split; [reflexivity | apply perm_swap].
  - destruct (IH1 ys Hy) as [zs [Ez Pz]]. destruct (IH2 zs Ez) as [ws [Ew Pw]].
    exists ws. split; [exact Ew | eapply Permutation_trans; eauto].
Qed.

Lemma value_projection_content (g : value -> outcome value) (m : obj) ys zs :
  mapM g (map snd (ord m)) = Ok ys -> mapM g (map snd m) = Ok zs ->
  Permutation (drop_nulls ys) (drop_nulls zs).
Proof.
  intros Hy Hz.
  destruct (mapM_perm g (map snd (ord m)) (map snd m) ys (Permutation_map snd (ord_perm m)) Hy) as [ws [Ew Pw]].
  rewrite Hz in Ew. inversion Ew; subst. unfold drop_nulls.
  clear - Pw. induction Pw; cbn.
  - constructor.
  - destruct (not_null x); [constructor|]; assumption.
  - destruct (not_null x), (not_null y); try apply Permutation_refl. apply perm_swap.
  - eapply Permutation_trans; eauto.
Qed.

End WithNum.

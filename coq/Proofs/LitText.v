(* LitText.v — the hypothesis lit_spec of the parser theorems is satisfiable: a
   function choosing, for every value that json.Unmarshal can return, a JSON text
   of it (and a non-text otherwise) exists.  This is the only place where axioms
   are used, and only to show non-vacuity: excluded middle and indefinite
   description, as declared by the standard library (Coq.Logic.ClassicalEpsilon).
   No other theorem depends on this file.  Where json.Marshal's text is read back
   (JsonRound.v: all JSON data with valid-UTF-8 strings, under the number law
   NumText), that text is such a choice, constructively. *)
From Coq Require Import ClassicalEpsilon.
From JM Require Import Model.Base Model.Num Model.Value Model.JsonText Proofs.ParserComplete.

Section WithNum.
Context {NumO : NumOps}.

Theorem lit_spec_satisfiable : exists lit_text : value -> bytes, lit_spec lit_text.
Proof.
  exists (fun v => match excluded_middle_informative (exists t, json_unmarshal t = Some v) with
                   | left H => proj1_sig (constructive_indefinite_description _ H)
                   | right _ => []
                   end).
  intros v. destruct (excluded_middle_informative (exists t, json_unmarshal t = Some v)) as [H|H].
  - left. exact (proj2_sig (constructive_indefinite_description _ H)).
  - right. split; [reflexivity|]. intros t E. apply H. exists t. exact E.
Qed.

End WithNum.

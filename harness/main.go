package main

// harness: generates the cases of one property's check, runs the real library
// on them (built from /repo's working tree with -tags verif), evaluates the
// property's direct Go-side oracle, and writes
//   <out>/cases_<k>.v    Coq files that Run/Checker.v evaluates (model + spec side)
//   <out>/cases.jsonl    the same cases in readable form (replay, evidence)
//   <out>/meta.json      counts, input distribution, samples, direct violations

import (
	"encoding/json"
	"flag"
	"fmt"
	"math/rand"
	"os"
	"path/filepath"
	"runtime/debug"
	"strings"
	"time"

	jmespath "github.com/jmespath/go-jmespath"
)

type Case struct {
	ID     int         `json:"id"`
	Family string      `json:"family"`
	Kind   string      `json:"kind"` // search | ast | tok | tree
	Expr   string      `json:"expr"`
	Doc    interface{} `json:"doc,omitempty"`
	Mode   string      `json:"mode,omitempty"` // exact | perm
	CmpOff bool        `json:"cmp_off,omitempty"`
	Tree   *Ex         `json:"-"`
	TreeS  string      `json:"tree,omitempty"`
	Go     string      `json:"go"` // what the library did, readable
	goObs  Obs
	goAst  AObs
	goTok  TObs
	// cli cases
	Args     []string `json:"args,omitempty"`
	ViaFile  bool     `json:"via_file,omitempty"`
	Input    *string  `json:"input,omitempty"` // nil: the read fails
	ExitCode int      `json:"exit_code,omitempty"`
	Stdout   string   `json:"stdout,omitempty"`
	GoDoc    string   `json:"go_doc,omitempty"` // a Go-typed document as a gval term
	// calls made (and ignored) in this process just before the observed one
	Prelude []string `json:"prelude,omitempty"`
}

type Violation struct {
	Property string      `json:"property"`
	Family   string      `json:"family"`
	Expr     string      `json:"expr"`
	Doc      interface{} `json:"doc,omitempty"`
	What     string      `json:"what"`
	Detail   string      `json:"detail,omitempty"`
	Prelude  []string    `json:"prelude,omitempty"`
}

type Run struct {
	prop       string
	tier       string
	seed       int64
	rng        *rand.Rand
	cases      []Case
	violations []Violation
	dist       map[string]int
	skipped    int
	progress   *os.File
}

func (r *Run) count(key string) { r.dist[key]++ }

func (r *Run) violate(family, expr string, doc interface{}, what, detail string) {
	r.violations = append(r.violations, Violation{r.prop, family, expr, doc, what, detail, peekPrelude()})
}

// mark writes the input about to be executed, so that a crash of this process
// (a stack overflow cannot be recovered) or a hang can be attributed.
func (r *Run) mark(family, expr string, doc interface{}) {
	if r.progress == nil {
		return
	}
	b, _ := json.Marshal(map[string]interface{}{"family": family, "expr": expr, "doc": doc})
	r.progress.Truncate(0)
	r.progress.WriteAt(b, 0)
}

func docKindTag(o Obs) string {
	if o.Kind != "val" {
		return "obs:" + o.Kind
	}
	switch o.Value.(type) {
	case nil:
		return "obs:null"
	case []interface{}:
		if len(o.Value.([]interface{})) == 0 {
			return "obs:empty-array"
		}
		return "obs:array"
	case map[string]interface{}:
		return "obs:object"
	}
	return "obs:scalar"
}

// addSearch observes Search(expr, doc) and records a search case.
func (r *Run) addSearch(family, expr string, doc interface{}, mode string) *Case {
	if !modelable(expr, doc) {
		r.skipped++
		return nil
	}
	r.mark(family, expr, doc)
	before := deepCopy(doc)
	o := observeSearch(expr, doc)
	r.generic(family, expr, before, doc, o)
	r.crossAPI(family, expr, before, mode, o)
	c := Case{ID: len(r.cases), Family: family, Kind: "search", Expr: expr, Doc: before, Mode: mode, Go: o.String(), goObs: o}
	c.Prelude = takePrelude()
	r.cases = append(r.cases, c)
	r.count(docKindTag(o))
	return &r.cases[len(r.cases)-1]
}

// addTree observes both Compile and Search for the text of a spec tree.
func (r *Run) addTree(family string, t *Ex, text string, doc interface{}, mode string) *Case {
	if !modelable(text, doc) {
		r.skipped++
		return nil
	}
	r.mark(family, text, doc)
	before := deepCopy(doc)
	a := observeCompile(text)
	o := observeSearch(text, doc)
	r.generic(family, text, before, doc, o)
	r.crossAPI(family, text, before, mode, o)
	c := Case{ID: len(r.cases), Family: family, Kind: "tree", Expr: text, Doc: before, Mode: mode, Tree: t, TreeS: t.coq(), Go: o.String(), goObs: o, goAst: a}
	c.Prelude = takePrelude()
	r.cases = append(r.cases, c)
	r.count(docKindTag(o))
	return &r.cases[len(r.cases)-1]
}

func (r *Run) addAst(family, expr string, cmpOff bool) *Case {
	if !modelable(expr, nil) {
		r.skipped++
		return nil
	}
	r.mark(family, expr, nil)
	a := observeCompile(expr)
	c := Case{ID: len(r.cases), Family: family, Kind: "ast", Expr: expr, CmpOff: cmpOff, Go: a.Kind + " " + a.Msg, goAst: a}
	c.Prelude = takePrelude()
	r.cases = append(r.cases, c)
	r.count("compile:" + a.Kind)
	return &r.cases[len(r.cases)-1]
}

// addCli records one run of the jpgo binary.
func (r *Run) addCli(family string, args []string, viaFile bool, input *string, code int, stdout string) {
	c := Case{ID: len(r.cases), Family: family, Kind: "cli", Expr: strings.Join(args, " "), Args: args, ViaFile: viaFile,
		Input: input, ExitCode: code, Stdout: stdout, Go: fmt.Sprintf("exit=%d stdout=%q", code, stdout)}
	c.Prelude = takePrelude()
	r.cases = append(r.cases, c)
	r.count(fmt.Sprintf("cli-case:exit%d", code))
}

func (r *Run) addTok(family, expr string) *Case {
	r.mark(family, expr, nil)
	t := observeTokens(expr)
	c := Case{ID: len(r.cases), Family: family, Kind: "tok", Expr: expr, Go: t.Kind + " " + t.Msg, goTok: t}
	c.Prelude = takePrelude()
	r.cases = append(r.cases, c)
	r.count("lex:" + t.Kind)
	return &r.cases[len(r.cases)-1]
}

// crossAPI: for the properties whose statement fixes the result of every call (and for C13),
// Compile(expr).Search(doc) must give what the one-shot Search gave on the same input
// (compared when the result does not expose the iteration order of an object).
var crossAPIProps = map[string]bool{"C01": true, "C02": true, "C03": true, "C07": true, "C08": true, "C09": true, "C10": true,
	"C11": true, "C13": true, "C14": true, "C15": true, "C16": true}

func (r *Run) crossAPI(family, expr string, doc interface{}, mode string, o Obs) {
	if mode != "exact" || !crossAPIProps[r.prop] || (o.Kind != "val" && o.Kind != "evalerr") {
		return
	}
	jp, err := jmespath.Compile(expr)
	if err != nil {
		return
	}
	oc := obsOfSearchCompiled(jp, deepCopy(doc))
	r.count("crossapi")
	if canon(o, false) != canon(oc, false) {
		r.violate(family, expr, doc, "Compile(...).Search differs from the one-shot Search on the same input", "one-shot: "+o.String()+" compiled: "+oc.String())
	}
}

// generic evaluates, on every observed Search, the direct oracles of the
// property being checked that need nothing but the call itself.
func (r *Run) generic(family, expr string, before, after interface{}, o Obs) {
	switch r.prop {
	case "C05":
		if o.Kind == "panic" {
			r.violate(family, expr, before, "panic", o.Msg)
		}
	case "C06":
		if !jsonEqual(before, after) {
			b, _ := json.Marshal(after)
			r.violate(family, expr, before, "document modified by Search", "after: "+string(b))
		}
	case "C16":
		if o.Kind == "val" {
			if ok, why := isJSONData(o.Value); !ok {
				r.violate(family, expr, before, "result is not JSON data", why)
			} else if b, err := json.Marshal(o.Value); err != nil {
				r.violate(family, expr, before, "result cannot be serialised", err.Error())
			} else {
				var back interface{}
				if err := json.Unmarshal(b, &back); err != nil || !jsonEqual(back, o.Value) {
					r.violate(family, expr, before, "result does not survive a JSON round trip", string(b))
				}
			}
		}
	}
}

// modelable: inputs outside what the model covers are skipped (counted).
func modelable(expr string, doc interface{}) bool {
	// strconv.ParseFloat's hexadecimal and underscore syntax is not modelled
	if strings.Contains(expr, "to_number") {
		b, _ := json.Marshal(doc)
		s := expr + string(b)
		for i := 0; i+1 < len(s); i++ {
			if (s[i] == '0' && (s[i+1] == 'x' || s[i+1] == 'X')) || (s[i] == '_' && s[i+1] >= '0' && s[i+1] <= '9') {
				return false
			}
		}
	}
	return true
}

func (c *Case) coq() string {
	mode := "Exact"
	if c.Mode == "perm" {
		mode = "UpToPerm"
	}
	if c.Mode == "kind" {
		mode = "KindOnly"
	}
	docS := "jNull"
	if c.Kind == "search" || c.Kind == "tree" {
		s, ok := coqValue(c.Doc)
		if !ok {
			panic("document not JSON")
		}
		docS = s
	}
	switch c.Kind {
	case "search":
		return fmt.Sprintf("CS (SCase %d %s %s %s %s %s)", c.ID, coqBytes(c.Expr), docS, mode, coqBool(c.CmpOff), c.goObs.coq())
	case "tree":
		return fmt.Sprintf("CE (ECase %d %s %s %s %s %s %s)", c.ID, c.Tree.coq(), coqBytes(c.Expr), docS, mode, c.goAst.coq(), c.goObs.coq())
	case "ast":
		return fmt.Sprintf("CA (ACase %d %s %s %s)", c.ID, coqBytes(c.Expr), coqBool(c.CmpOff), c.goAst.coq())
	case "tok":
		return fmt.Sprintf("CT (TCase %d %s %s)", c.ID, coqBytes(c.Expr), c.goTok.coq())
	case "go":
		return fmt.Sprintf("CG (GCase %d %s %s %s)", c.ID, coqBytes(c.Expr), c.GoDoc, c.goObs.coq())
	case "cli":
		args := make([]string, len(c.Args))
		for i, a := range c.Args {
			args[i] = coqBytes(a)
		}
		in := "None"
		if c.Input != nil {
			in = "(Some " + coqBytes(*c.Input) + ")"
		}
		return fmt.Sprintf("CC (CCase %d [%s] %s %s %s %s)", c.ID, strings.Join(args, "; "), coqBool(c.ViaFile), in, coqZ(int64(c.ExitCode)), coqBytes(c.Stdout))
	}
	panic("kind")
}

func jsonEqual(a, b interface{}) bool {
	x, err1 := json.Marshal(a)
	y, err2 := json.Marshal(b)
	if err1 != nil || err2 != nil {
		return false
	}
	return string(x) == string(y) && nilShape(a) == nilShape(b)
}

// nilShape distinguishes nil slices/maps from empty ones (json.Marshal prints null for nil).
func nilShape(v interface{}) string {
	switch x := v.(type) {
	case []interface{}:
		if x == nil {
			return "N"
		}
		s := "["
		for _, e := range x {
			s += nilShape(e)
		}
		return s + "]"
	case map[string]interface{}:
		if x == nil {
			return "N"
		}
		s := "{"
		for _, k := range sortedKeys(x) {
			s += nilShape(x[k])
		}
		return s + "}"
	}
	return "."
}

func main() {
	prop := flag.String("prop", "", "property id")
	tier := flag.String("tier", "quick", "quick | thorough")
	seed := flag.Int64("seed", 1, "PRNG seed")
	out := flag.String("out", "", "output directory")
	shard := flag.Int("shard", 250, "cases per Coq file")
	repo := flag.String("repo", "/repo", "repository under study (for its corpus files)")
	replay := flag.String("replay", "", "replay file: re-run its input and print what the library does")
	flag.Parse()
	debug.SetMaxStack(256 << 20)
	if *replay != "" {
		os.Exit(doReplay(*replay))
	}
	if *prop == "" || *out == "" {
		fmt.Fprintln(os.Stderr, "usage: harness -prop Cxx -tier quick|thorough -seed N -out DIR")
		os.Exit(2)
	}
	os.MkdirAll(*out, 0o755)
	start := time.Now()
	r := &Run{prop: *prop, tier: *tier, seed: *seed, rng: rand.New(rand.NewSource(*seed)), dist: map[string]int{}}
	interRng = rand.New(rand.NewSource(*seed*7919 + 13))
	pf, err := os.Create(filepath.Join(*out, "progress.json"))
	if err == nil {
		r.progress = pf
		defer pf.Close()
	}
	repoDir = *repo
	fam, ok := families[*prop]
	if !ok {
		fmt.Fprintln(os.Stderr, "unknown property", *prop)
		os.Exit(2)
	}
	fam(r)

	// Coq files
	nfiles := 0
	for i := 0; i < len(r.cases); i += *shard {
		j := i + *shard
		if j > len(r.cases) {
			j = len(r.cases)
		}
		var b strings.Builder
		b.WriteString("From Coq Require Import Floats.\nFrom JM Require Import Model.Base Model.Value Spec.Grammar Inst.FloatNum Run.Checker Run.SpecChecker.\nDefinition cases : list anycase := [\n")
		for k := i; k < j; k++ {
			if k > i {
				b.WriteString(";\n")
			}
			b.WriteString("  " + r.cases[k].coq())
		}
		b.WriteString("\n].\nDefinition M := Eval vm_compute in report cases.\nPrint M.\n")
		os.WriteFile(filepath.Join(*out, fmt.Sprintf("cases_%d.v", nfiles)), []byte(b.String()), 0o644)
		nfiles++
	}
	// readable cases
	jf, _ := os.Create(filepath.Join(*out, "cases.jsonl"))
	enc := json.NewEncoder(jf)
	distinct := map[string]bool{}
	nontrivial := 0
	for i := range r.cases {
		c := &r.cases[i]
		enc.Encode(c)
		key := c.Kind + "\x00" + c.Expr
		if c.Doc != nil {
			b, _ := json.Marshal(c.Doc)
			key += "\x00" + string(b)
		}
		if !distinct[key] {
			distinct[key] = true
			if nontrivialCase(c) {
				nontrivial++
			}
		}
	}
	jf.Close()
	var samples []map[string]interface{}
	step := len(r.cases)/6 + 1
	for i := 0; i < len(r.cases); i += step {
		c := r.cases[i]
		samples = append(samples, map[string]interface{}{"family": c.Family, "kind": c.Kind, "expr": c.Expr, "doc": c.Doc, "library_did": c.Go})
	}
	meta := map[string]interface{}{
		"property": *prop, "tier": *tier, "seed": *seed, "cases": len(r.cases), "distinct": len(distinct),
		"distinct_nontrivial": nontrivial, "files": nfiles, "skipped_unmodelled": r.skipped,
		"distribution": r.dist, "samples": samples, "violations": r.violations,
		"harness_wall_s": time.Since(start).Seconds(),
	}
	mb, _ := json.MarshalIndent(meta, "", " ")
	os.WriteFile(filepath.Join(*out, "meta.json"), mb, 0o644)
	if r.progress != nil {
		r.progress.Truncate(0)
	}
	fmt.Printf("harness: %d cases, %d files, %d direct violations, %d skipped\n", len(r.cases), nfiles, len(r.violations), r.skipped)
}

// nontrivialCase: the library got past the lexer and did something other than
// fail at offset 0 or return null on a scalar document.
func nontrivialCase(c *Case) bool {
	switch c.Kind {
	case "search", "tree":
		if c.goObs.Kind == "val" && c.goObs.Value == nil {
			return false
		}
		return len(c.Expr) > 1
	case "ast":
		return len(c.Expr) > 1 && !(c.goAst.Kind == "syn" && c.goAst.Offset == 0)
	case "tok":
		return len(c.Expr) > 1
	}
	return true
}

package main

// Families added after the fifth round of seeded changes.

import (
	"encoding/json"
	"fmt"
	"io/ioutil"
	"path/filepath"
	"regexp"

	jmespath "github.com/jmespath/go-jmespath"
)

// keys that differ from the written name only in the case of a letter: a name denotes exactly itself (C01, C14)
func famCaseTwins(r *Run) {
	var d interface{}
	json.Unmarshal([]byte(`{"Foo":1,"a":{"B":[1,2],"c":{"D":3}},"Id":7,"name":"lower","Name":"upper","NAME":"all","l":[{"Key":1},{"key":2},{"KEY":3}],"x":{"Y":{"z":1}},"élan":1,"Élan":2}`), &d)
	for _, e := range []string{"foo", "Foo", "fOO", "FOO", "a.b", "a.B", "a.b[-1]", "a.c.d", "a.C.D", "[id, Id]", "[Id, id, ID]", "name", "Name", "NAME", "nAME", "[name, Name, NAME]",
		"l[*].key", "l[*].Key", "l[*].KEY", "l[?key]", "l[?Key].Key", "x.y.z", "x.Y.z", "x.Y.Z", "{a: foo, b: Foo}", "foo || 'none'", "id || Id", "`{\"Key\": 1}`.key", "`{\"Key\": 1}`.Key",
		"`{\"key\": 1}`.Key", "\"foo\"", "\"Foo\"", "a.\"b\"", "@.foo", "*.b", "*.B", "keys(@)[?@ == 'foo']", "\"élan\"", "\"Élan\"", "[\"élan\", \"Élan\"]", "not_null(foo, id, 'z')", "length(a.b || `[]`)"} {
		r.addSearch("case-twins", e, d, modeFor(e, d))
	}
}

// slices, indices and projections whose left-hand side is a string, number, object, boolean or null (C02, C08)
func famSliceNonArrays(r *Run) {
	var d interface{}
	json.Unmarshal([]byte(`{"s":"hello","n":12,"o":{"k":"xyz","l":[1,2,3]},"t":true,"z":null,"e":"","mix":["abc",[1,2],{"a":1},null,7,"héllo"],"u":"héllo wörld"}`), &d)
	var exprs []string
	for _, sl := range []string{"[1:3]", "[:1]", "[1:]", "[::-1]", "[::2]", "[0:2]", "[10:]", "[::0]", "[-2:]", "[:]"} {
		for _, l := range []string{"s", "n", "o", "t", "z", "e", "u", "o.k", "'lit'", "`\"json\"`", "mix[0]", "mix[5]", "to_string(n)"} {
			exprs = append(exprs, l+sl, l+sl+".x", l+" | "+sl, "["+l+sl+"]")
		}
		exprs = append(exprs, "mix[*]"+sl, "mix[]"+sl, "*"+sl, "o.*"+sl, "mix[?@"+sl+"]", "mix[*]"+sl+"[0]", "[s, u][*]"+sl, "mix | [*]"+sl, "mix[?@"+sl+" == `[1]`]")
	}
	for _, e := range exprs {
		r.addSearch("slice-non-arrays", e, d, modeFor(e, d))
	}
}

// filters comparing a field with a literal over arrays that also hold non-objects (C02, C07)
func famFilterMixed(r *Run) {
	var d interface{}
	json.Unmarshal([]byte(`{"m":[1,"x",{"a":1},{"a":2},[3],null,true,{"b":2},{"a":null},{"a":"1"}],"objs":[{"a":1},{"a":2},{"b":1}],"nest":[[{"a":1}],[1],{"a":[1]}]}`), &d)
	var exprs []string
	for _, l := range []string{"m", "objs", "nest", "nest[]", "m[*]", "[m, objs][]"} {
		for _, c := range []string{"a != `1`", "a == `1`", "a == `null`", "a != `null`", "`1` != a", "`null` == a", "a == 'x'", "a != 'x'", "b == `2`", "b != `2`", "a != a", "a == b", "a != b",
			"!(a == `null`)", "!(a != `1`)", "a", "!a", "a == `1` || b == `2`", "a != `1` && b != `2`", "a < `2`", "a >= `1`", "@ == `1`", "@ != `1`", "a.b != `1`", "a[0] == `1`", "\"a\" != `1`"} {
			exprs = append(exprs, l+"[?"+c+"]", l+"[?"+c+"] | length(@)")
		}
	}
	for _, e := range exprs {
		r.addSearch("filter-mixed", e, d, modeFor(e, d))
	}
}

// two different slices in one expression: each takes its own parameters and defaults (C08, C13)
func famSlicePairs(r *Run) {
	arr := []interface{}{0.0, 1.0, 2.0, 3.0, 4.0, 5.0}
	specs := []string{"[1:]", "[:2]", "[::-1]", "[1:5:2]", "[:]", "[2:4]", "[::2]", "[-2:]", "[:-1]", "[4:1:-1]", "[::-2]", "[3:]", "[:0]"}
	for _, a := range specs {
		for _, b := range specs {
			if a == b {
				continue
			}
			for _, e := range []string{a + " | " + b, "[" + a + ", " + b + "]", "{x: " + a + ", y: " + b + "}", a + " | [" + b + ", " + a + "]", "@" + a + " || @" + b} {
				r.addSearch("slice-pairs", e, arr, "exact")
			}
		}
	}
	// the same compiled expression, evaluated after a different one was evaluated
	for i := 0; i+1 < len(specs); i++ {
		jp, err := jmespath.Compile(specs[i] + " | " + specs[i+1])
		if err != nil {
			continue
		}
		first := obsOfSearchCompiled(jp, deepCopy(arr))
		for k := 0; k < 3; k++ {
			again := obsOfSearchCompiled(jp, deepCopy(arr))
			if canon(first, false) != canon(again, false) {
				r.violate("slice-pairs", specs[i]+" | "+specs[i+1], arr, "a compiled expression with two slices gives different results on repeated calls", first.String()+" then "+again.String())
			}
		}
	}
}

// projections and filters over typed Go slices whose right-hand side or condition fails for
// some element: the error is reported, as on the generic document (C11, C18)
func famTypedSliceErrors(r *Run) {
	type item struct {
		Name string      `json:"name"`
		A    interface{} `json:"a"`
	}
	type holder struct {
		Items []item  `json:"items"`
		Refs  []*item `json:"refs"`
	}
	docs := []interface{}{
		[]map[string]interface{}{{"a": 1.0}, {"a": "x"}, {"a": 3.0}},
		[]map[string]interface{}{{"a": "x"}, {"a": 1.0}},
		[]string{"a", "b"},
		[]interface{}{map[string]interface{}{"a": 1.0}, map[string]interface{}{"a": "x"}},
		holder{Items: []item{{"p", 1.0}, {"q", "x"}, {"r", 2.0}}, Refs: []*item{{"s", 1.0}, nil, {"t", "y"}}},
		&holder{Items: []item{{"p", "x"}}, Refs: []*item{}},
		map[string]interface{}{"items": []item{{"p", 1.0}, {"q", "x"}}, "strs": []string{"u", "v"}},
	}
	exprs := []string{"[*].abs(a)", "[?abs(a) > `0`]", "[*].abs(@)", "[?length(@) > `0`]", "[].abs(a)", "[*].a.abs(@)", "[0:2].abs(a)", "[?abs(a) == `1`] | length(@)",
		"items[*].abs(a)", "items[?abs(a) > `0`].name", "length(items[?abs(name) == `1`])", "refs[*].abs(a)", "refs[?abs(a) > `0`]", "items[].abs(a)", "items[:2].abs(a)", "strs[*].abs(@)",
		"strs[?abs(@) > `0`]", "map(&abs(a), items)", "map(&abs(a), @)", "sort_by(items, &abs(a))", "max_by(@, &abs(a))", "[*].nosuch(@)", "items[*].nosuch(@)", "[?nosuch(@)]", "[*].a[::0]", "items[*].name[::0]"}
	for _, doc := range docs {
		generic, err := normalise(doc)
		if err != nil {
			continue
		}
		for _, e := range exprs {
			r.mark("typed-slice-errors", e, generic)
			og := observeSearch(e, generic)
			od := observeSearch(e, doc)
			r.count("typederr:" + od.Kind)
			if od.Kind == "panic" {
				r.violate("typed-slice-errors", e, generic, "panic on a document holding typed Go slices"+describeGo(doc), od.Msg)
				continue
			}
			if (od.Kind == "val") != (og.Kind == "val") {
				r.violate("typed-slice-errors", e, generic, "on typed Go slices the evaluation error of an element is lost (or invented): outcome differs from the generic document's",
					od.String()+" vs "+og.String()+describeGo(doc))
			} else if od.Kind == "val" {
				nd, err := normalise(od.Value)
				if err != nil || !jsonEqual(nd, og.Value) {
					r.violate("typed-slice-errors", e, generic, "result on typed Go slices differs from the result on the equivalent generic document", od.String()+" vs "+og.String()+describeGo(doc))
				}
			}
			r.addSearch("typed-slice-errors", e, generic, modeFor(e, generic))
		}
	}
}

// one-shot Search and a compiled expression on generic maps that hold Go structs along the path (C13, C18)
func famOneShotStructs(r *Run) {
	type owner struct {
		Name string `json:"name"`
		Team *owner `json:"team"`
	}
	o := owner{Name: "ann", Team: &owner{Name: "core"}}
	docs := []interface{}{
		map[string]interface{}{"service": map[string]interface{}{"owner": o, "ptr": &o, "list": []owner{o}, "m": map[string]interface{}{"deep": &o}}},
		map[string]interface{}{"owner": o},
		map[string]interface{}{"a": map[string]interface{}{"b": map[string]interface{}{"c": o}}},
		o, &o,
	}
	exprs := []string{"service.owner.name", "service.ptr.name", "service.owner.team.name", "service.m.deep.name", "owner.name", "owner.team.name", "a.b.c.name", "a.b.c.team.name",
		"name", "team.name", "service.owner", "service.list[0].name", "service.owner.name ", " service.owner.name", "service . owner . name", "service.owner.missing", "service.missing.name",
		"service.owner.name.x", "\"service\".owner.name", "service.owner.name | @", "[service.owner.name]", "service.list[*].name"}
	for _, doc := range docs {
		for _, e := range exprs {
			r.mark("G-oneshot-structs", e, nil)
			one := observeSearch(e, doc)
			var comp Obs
			if jp, err := jmespath.Compile(e); err == nil {
				comp = obsOfSearchCompiled(jp, doc)
			} else {
				comp = Obs{Kind: "compile-error"}
			}
			r.count("oneshot:" + one.Kind)
			if one.Kind == "panic" || comp.Kind == "panic" {
				r.violate("G-oneshot-structs", e, nil, "panic"+describeGo(doc), one.Msg+comp.Msg)
				continue
			}
			if one.Kind == "val" && comp.Kind == "val" {
				if canonGo(one) != canonGo(comp) {
					r.violate("G-oneshot-structs", e, nil, "one-shot Search differs from Compile followed by Search on the same document"+describeGo(doc), one.String()+" vs "+comp.String())
				}
			} else if (one.Kind == "val") != (comp.Kind == "val") {
				r.violate("G-oneshot-structs", e, nil, "one-shot Search differs from Compile followed by Search on the same document"+describeGo(doc), one.String()+" vs "+comp.String())
			}
		}
	}
}

// a step whose result is not a finite number, handed on by a pipe: the split evaluation sees the same value (C15)
func famPipeNonFinite(r *Run) {
	d := map[string]interface{}{"a": []interface{}{1e308, 1e308}, "b": []interface{}{-1e308, -1e308}, "one": 1.0}
	as := []string{"sum(a)", "sum(b)", "[sum(a)]", "{k: sum(a)}", "[sum(a), one]", "sum([sum(a), sum(b)])", "avg([sum(a), one])", "[one, sum(b)]"}
	bs := []string{"type(@)", "@ > `0`", "@ < `0`", "@ == @", "@", "[0]", "k", "type(@[0])", "type(k)", "not_null(@)", "[@, @]", "@ == `null`", "to_array(@)", "length(to_array(@))", "@[0] > `0`", "k > `0`", "abs(@)", "to_string(@)"}
	for _, ta := range as {
		for _, tb := range bs {
			whole := ta + " | " + tb
			r.mark("pipe-non-finite", whole, d)
			ow := observeSearch(whole, deepCopy(d))
			oa := observeSearch(ta, deepCopy(d))
			want := oa
			if oa.Kind == "val" {
				want = observeSearch(tb, oa.Value)
			}
			if ow.Kind == "panic" || want.Kind == "panic" {
				continue // C05's business
			}
			if canon(ow, false) != canon(want, false) {
				r.violate("pipe-non-finite", whole, d, "Search('A | B', d) differs from Search(B, Search(A, d)) when A's result is not a finite number", ow.String()+" vs "+want.String())
			}
		}
	}
}

// unquoted identifiers are ASCII: a letter or digit outside ASCII where a name may stand is a syntax error (C04, C05, C14)
func famNonASCIIBare(r *Run) {
	d := map[string]interface{}{"é": "m", "café": 1.0, "foo": map[string]interface{}{"бар": 2.0, "é": 3.0}, "a٣": 4.0, "x": map[string]interface{}{"名前": 5.0}, "ß": 1.0, "ñ": "n", "a": 1.0}
	for _, w := range []string{"é", "café", "бар", "a٣", "名前", "ß", "ñ", "日", "\U0001F642", "à", "À", " ", "aé", "éa", "á", "ａ", "٣", "a‍", "_é", "ǅ", "ʰ"} {
		for _, e := range []string{w, "foo." + w, "{k: " + w + "}", "[?" + w + " == `1`]", "x." + w, w + ".a", "[" + w + "]", w + " || a", "a." + w + ".b", "length(" + w + ")", w + "(a)", "&" + w, "a[?" + w + "]", "@." + w} {
			r.addAst("non-ascii-bare", e, true)
			r.addSearch("non-ascii-bare", e, d, "exact")
			r.addTok("non-ascii-bare", e)
		}
	}
}

var funcNameRe = regexp.MustCompile(`(?m)(?:name:\s*|^\s*)"([a-z][a-z0-9_]*)"\s*[:,]`)

// every function name that appears in the library's function table source, called with a few argument
// shapes: a name outside the specification's 26 is an unknown function — an error, never a value or a panic (C05, C10)
func famSourceFunctionNames(r *Run) {
	src, err := ioutil.ReadFile(filepath.Join(repoDir, "functions.go"))
	if err != nil {
		return
	}
	known := map[string]bool{}
	for _, s := range fsigs {
		known[s.name] = true
	}
	seen := map[string]bool{}
	d := map[string]interface{}{"o": map[string]interface{}{"only": 1.0}, "rows": []interface{}{[]interface{}{"a", 1.0}, []interface{}{"b"}}, "l": []interface{}{1.0, 2.0}, "s": "x", "n": 1.0,
		"pairs": []interface{}{[]interface{}{"a", 1.0}, []interface{}{"b", 2.0}}, "e": []interface{}{}, "ee": []interface{}{[]interface{}{}},
		"objs": []interface{}{map[string]interface{}{"k": "a"}, map[string]interface{}{"k": 1.0}}, "objs2": []interface{}{map[string]interface{}{"k": "a"}, map[string]interface{}{"k": "b"}, map[string]interface{}{"k": "a"}},
		"objs3": []interface{}{map[string]interface{}{"k": "a"}, map[string]interface{}{}}}
	for _, m := range funcNameRe.FindAllStringSubmatch(string(src), -1) {
		name := m[1]
		if known[name] || seen[name] {
			continue
		}
		seen[name] = true
		for _, args := range []string{"", "@", "o", "rows", "l", "s", "n", "pairs", "e", "ee", "`[[]]`", "`[[\"a\"]]`", "[keys(o)]", "rows[*][:1]", "o, o", "l, &@", "&@, l", "s, s", "l, `1`", "o, l, s", "`null`", "&n", "objs, &k", "objs2, &k", "objs3, &k", "&k, objs", "objs2, &@", "pairs, &@[0]", "l, &to_string(@)", "s, &@", "objs2, &k, &k", "objs"} {
			e := name + "(" + args + ")"
			r.mark("source-function-names", e, d)
			o := observeSearch(e, d)
			r.count("srcfn:" + o.Kind)
			if o.Kind == "panic" {
				r.violate("source-function-names", e, d, "panic in a function that the library's table lists beyond the specification's 26", o.Msg)
			} else if o.Kind == "val" && r.prop != "C16" {
				// (for C16 the question is what the value is made of: the generic oracle of addSearch looks at it)
				r.violate("source-function-names", e, d, "a call of a function name the specification does not define returns a value instead of an error", o.String())
			}
			r.addSearch("source-function-names", e, d, "exact")
		}
	}
	r.count(fmt.Sprintf("srcfn:names-beyond-spec=%d", len(seen)))
}

// lists with nulls between other elements, under projections that keep the elements as they are (C06, C02)
func famNullHoles(r *Run) {
	var d interface{}
	json.Unmarshal([]byte(`{"foo":[1,null,2,null,3],"lists":[[1],null,[2]],"rows":[{"v":[1,null,2]},{"v":[null,3]},null,{"v":[4]}],"tail":[1,2,null],"head":[null,1,2],"nn":[null,null,5],"s":["a",null,"b"]}`), &d)
	for _, e := range []string{"foo[*]", "foo[]", "foo[1:3]", "foo[:]", "foo | [*]", "foo[*] | [0]", "rows[*].v[*]", "rows[*].v[]", "rows[].v[]", "sort_by(lists[*], &@)", "sort_by(lists[*], &@[0])", "lists[*]", "lists[]",
		"tail[*]", "head[*]", "nn[*]", "s[*]", "s[]", "foo[*][]", "[foo[*], foo]", "foo[*] | length(@)", "foo[?@]", "foo[::2]", "rows[*].v[*] | [0]", "length(foo[*])", "abs(foo[*])", "foo[*].nosuch(@)",
		"map(&@, foo)", "foo[*] || foo", "not_null(foo[*])", "{a: foo[*], b: foo}", "reverse(foo[*])", "sort(s[*])", "join(',', s[*])", "head[*] | reverse(@)", "*[*]", "*[]", "rows[*].v | [*][*]"} {
		r.addSearch("null-holes", e, d, modeFor(e, d))
	}
}

// jpgo: integers beyond 2^53 in the input, and empty lines inside it
func cliBigAndBlank() (inputs []string, exprs []string) {
	inputs = []string{`{"id": 9007199254740993, "neg": -9007199254740993, "f": 1e400}`, `{"id": 9007199254740993, "neg": -9007199254740993}`, `[9007199254740993, 18446744073709551617, 123456789012345678901234567890]`,
		`{"a": "\\u003cb\\u003e", "url": "http://h/?a=1&b=2", "lt": "<>&", "esc": "\\u0026 \\\\u003c \\n"}`, "{\"a\": [1,\n\n2]}", "{\"a\": 1}\n\n} trailing garbage", "\n\n{\"a\": 1}", "{\"a\": 1}\n\n", "{\"a\":\n\n\n {\"b\": [1, 2]}}", "{\"a\": 1}\n\n{\"a\": 2}", "[1,\r\n\r\n2]"}
	exprs = []string{"@", "id", "a", "id == `9007199254740992`", "id > `1`", "type(id)", "abs(neg)", "[0]", "[1] > [0]", "to_string(@)", "a.b", "sum(@)", "url", "lt", "esc", "[to_string(@)]", "to_string(lt)", "join('<', [lt, url])"}
	return
}

// several raw strings with escaped quotes in one expression, with other tokens between them (C14, C01)
func famMultiRawTargeted(r *Run) {
	d := map[string]interface{}{"foo": []interface{}{map[string]interface{}{"a": "it's"}, map[string]interface{}{"a": "he's"}, map[string]interface{}{"a": "x"}}, "k": 1.0}
	type tc struct {
		text string
		want interface{}
	}
	cases := []tc{
		{`['a\'b', 'c\'d']`, []interface{}{"a'b", "c'd"}},
		{`['a\'b', 'x', 'c\'d']`, []interface{}{"a'b", "x", "c'd"}},
		{`['\'', '\'']`, []interface{}{"'", "'"}},
		{`['\'\'', 'p', '\'']`, []interface{}{"''", "p", "'"}},
		{`{a: 'p\'q', b: 'r\'s'}`, map[string]interface{}{"a": "p'q", "b": "r's"}},
		{`'a\'b' | 'c\'d'`, "c'd"},
		{`['a\'b', "k", ` + "`\"l\"`" + `, 'c\'d', 'plain']`, []interface{}{"a'b", 1.0, "l", "c'd", "plain"}},
		{`foo[?a == 'it\'s' || a == 'he\'s'].a`, []interface{}{"it's", "he's"}},
		{`foo[?a == 'it\'s'].a | [@, 'he\'s']`, []interface{}{[]interface{}{"it's"}, "he's"}},
		{`['a\\\'b', 'c\'d\\']`, nil},
		{`[join('\'', ['a', 'b']), 'c\'d']`, []interface{}{"a'b", "c'd"}},
		{`['no quote', 'a\'b', 'none', 'c\'d', 'e\'f']`, []interface{}{"no quote", "a'b", "none", "c'd", "e'f"}},
		{`contains('a\'b', '\'') && contains('c\'d', 'c\'')`, true},
		{`['a\'b'] | [@[0], 'c\'d']`, []interface{}{"a'b", "c'd"}},
	}
	for _, c := range cases {
		r.mark("multi-raw-targeted", c.text, d)
		o := observeSearch(c.text, d)
		if c.want != nil && (o.Kind != "val" || !jsonEqual(o.Value, c.want)) {
			wb, _ := json.Marshal(c.want)
			r.violate("multi-raw-targeted", c.text, d, "raw strings with escaped quotes in one expression do not denote the written values", "library: "+o.String()+" written: "+string(wb))
		}
		r.addSearch("multi-raw-targeted", c.text, d, "exact")
		r.addTok("multi-raw-targeted", c.text)
	}
}

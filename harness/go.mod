module harness

go 1.14

require github.com/jmespath/go-jmespath v0.0.0

replace github.com/jmespath/go-jmespath => /repo

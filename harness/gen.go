package main

// Generators: JSON documents and expression trees. Every random choice comes
// from one *rand.Rand seeded by the driver, so a case is replayable from
// (seed, family, index). Expression generation follows the shape of a Pratt
// parse (a prefix form, then operators that bind tighter than the context and
// no tighter than what the tree built so far leaves open), and is guided by
// evaluating the text built so far with the library itself, so that most
// accesses hit existing keys and most calls are well typed.

import (
	"math/rand"

	jmespath "github.com/jmespath/go-jmespath"
)

type Gen struct {
	rng  *rand.Rand
	feat Features
	thin bool // every object has at most one member: object iteration order cannot matter
}

// Features selects the constructs a family may generate.
type Features struct {
	Proj      bool // projections: [*] .* [] [?] slices
	Logic     bool // || && ! comparators
	Funcs     bool // function calls
	BadCalls  bool // ill-typed / wrong arity / unknown calls
	Paren     bool // redundant parentheses
	Hostile   bool // extreme integers, odd keys
	OrderFree bool // avoid object-order-exposing constructs (.* keys values)
}

var keyPool = []string{"a", "b", "c", "d", "foo", "bar", "x", "y", "id", "name"}
var oddKeys = []string{"", "a b", "ü", "日本", "a.b", "\"q\"", "0", "-1", "true", "A", "_", "k\n"}
var strPool = []string{"", "a", "b", "abc", "ab", "ü", "日本語", "a'b", "a\"b", "\\", "1", "12.5", "true", " ", "null", "é́", "a`b", "\t"}
var numPool = []float64{0, 1, -1, 2, 3, 10, 0.5, -2.5, 1000, 9007199254740994, 1e-7, 1e21, 123456789.125, 1.5, 100, 7}

func (g *Gen) key() string {
	if g.feat.Hostile && g.rng.Intn(8) == 0 {
		return oddKeys[g.rng.Intn(len(oddKeys))]
	}
	return keyPool[g.rng.Intn(len(keyPool))]
}

func (g *Gen) scalar() interface{} {
	switch g.rng.Intn(9) {
	case 0:
		return nil
	case 1:
		return true
	case 2:
		return false
	case 3, 4, 5:
		f := numPool[g.rng.Intn(len(numPool))]
		if g.rng.Intn(6) == 0 {
			f = -f
		}
		return f
	default:
		return strPool[g.rng.Intn(len(strPool))]
	}
}

// doc generates a JSON value; depth bounds nesting.
func (g *Gen) doc(depth int) interface{} {
	if depth <= 0 || g.rng.Intn(5) == 0 {
		return g.scalar()
	}
	switch g.rng.Intn(5) {
	case 0, 1:
		n := g.rng.Intn(4)
		if g.thin && n > 1 {
			n = 1
		}
		m := map[string]interface{}{}
		for i := 0; i < n; i++ {
			m[g.key()] = g.doc(depth - 1)
		}
		return m
	case 2:
		// homogeneous array
		n := g.rng.Intn(5)
		out := make([]interface{}, 0, n)
		kind := g.rng.Intn(4)
		for i := 0; i < n; i++ {
			switch kind {
			case 0:
				out = append(out, numPool[g.rng.Intn(len(numPool))])
			case 1:
				out = append(out, strPool[g.rng.Intn(len(strPool))])
			case 2:
				m := map[string]interface{}{}
				nk := 1 + g.rng.Intn(3)
				if g.thin {
					nk = 1
				}
				for j := 0; j < nk; j++ {
					m[keyPool[g.rng.Intn(4)]] = g.doc(depth - 2)
				}
				out = append(out, m)
			default:
				out = append(out, g.doc(depth-1))
			}
		}
		return out
	default:
		n := g.rng.Intn(5)
		out := make([]interface{}, 0, n)
		for i := 0; i < n; i++ {
			out = append(out, g.doc(depth-1))
		}
		return out
	}
}

// rootDoc: mostly objects, so that identifiers have something to select.
func (g *Gen) rootDoc() interface{} {
	switch g.rng.Intn(10) {
	case 0:
		return g.doc(3)
	case 1:
		out := []interface{}{}
		for i := 0; i < g.rng.Intn(5); i++ {
			out = append(out, g.doc(2))
		}
		return out
	default:
		m := map[string]interface{}{}
		nk := 2 + g.rng.Intn(3)
		if g.thin {
			nk = 1
		}
		for i := 0; i < nk; i++ {
			m[g.key()] = g.doc(2)
		}
		return m
	}
}

// ---- expressions ----

type headSet int

const (
	hIdent headSet = 1 << iota
	hQuoted
	hMulti
	hStar
	hBracket
	hFilter
	hOther
	hAny = hIdent | hQuoted | hMulti | hStar | hBracket | hFilter | hOther
)

func evalOn(e *Ex, cur interface{}) interface{} {
	defer func() { recover() }()
	r, err := jmespath.Search(e.text(textOpts{}), cur)
	if err != nil {
		return nil
	}
	return r
}

func firstElem(v interface{}) interface{} {
	switch x := v.(type) {
	case []interface{}:
		for _, e := range x {
			if e != nil {
				return e
			}
		}
	case map[string]interface{}:
		for _, e := range x {
			if e != nil {
				return e
			}
		}
	}
	return nil
}

func (g *Gen) indexFor(cur interface{}) int64 {
	if a, ok := cur.([]interface{}); ok && len(a) > 0 && g.rng.Intn(5) != 0 {
		return int64(g.rng.Intn(2*len(a)+1) - len(a))
	}
	return g.intLit()
}

func (g *Gen) intLit() int64 {
	if g.feat.Hostile && g.rng.Intn(10) == 0 {
		return []int64{9223372036854775807, -9223372036854775808, 2147483648, -2147483649, 4294967296, 9223372036854775806}[g.rng.Intn(6)]
	}
	return int64(g.rng.Intn(9) - 4)
}

func (g *Gen) optInt() *int64 {
	if g.rng.Intn(3) == 0 {
		return nil
	}
	v := g.intLit()
	return &v
}

func (g *Gen) identFor(cur interface{}) *Ex {
	name := g.key()
	if m, ok := cur.(map[string]interface{}); ok && len(m) > 0 && g.rng.Intn(6) != 0 {
		keys := sortedKeys(m)
		name = keys[g.rng.Intn(len(keys))]
	}
	quoted := !validUnquoted(name) || g.rng.Intn(6) == 0
	return &Ex{K: "ident", Quoted: quoted, Name: name}
}

func validUnquoted(s string) bool {
	if s == "" {
		return false
	}
	for i := 0; i < len(s); i++ {
		c := s[i]
		if !(c == '_' || (c >= 'a' && c <= 'z') || (c >= 'A' && c <= 'Z') || (i > 0 && c >= '0' && c <= '9')) {
			return false
		}
	}
	return true
}

func rawSpellable(s string) bool {
	for i := 0; i < len(s); i++ {
		if s[i] == '\\' && (i+1 == len(s) || s[i+1] == '\'') {
			return false
		}
	}
	return true
}

func (g *Gen) literal() *Ex {
	if g.rng.Intn(3) == 0 {
		if s := strPool[g.rng.Intn(len(strPool))]; rawSpellable(s) {
			return &Ex{K: "raw", Name: s}
		}
	}
	return &Ex{K: "lit", Lit: g.doc(2)}
}

// rhs generates the right-hand side of a projection of level p whose elements
// look like elem.
func (g *Gen) rhs(p int, depth int, elem interface{}) Rhs {
	if depth <= 0 || g.rng.Intn(3) == 0 {
		return Rhs{}
	}
	if g.rng.Intn(3) != 0 {
		hs := hIdent | hQuoted | hMulti
		if !g.feat.OrderFree {
			hs |= hStar
		}
		return Rhs{1, g.expr(p, depth-1, hs, elem)}
	}
	return Rhs{2, g.expr(p, depth-1, hBracket|hFilter, elem)}
}

func (g *Gen) multi(depth int, cur interface{}) *Ex {
	n := 1 + g.rng.Intn(3)
	if g.rng.Intn(2) == 0 {
		e := &Ex{K: "mslist"}
		for i := 0; i < n; i++ {
			e.Es = append(e.Es, g.expr(0, depth-1, hAny, cur))
		}
		if len(e.Es) == 1 && e.Es[0].K == "valproj" && e.Es[0].L == nil && e.Es[0].R.Kind == 0 {
			// "[*]" is the list wildcard
			e.Es = append(e.Es, &Ex{K: "current"})
		}
		return e
	}
	e := &Ex{K: "mshash"}
	for i := 0; i < n; i++ {
		k := g.key()
		e.KVs = append(e.KVs, KV{!validUnquoted(k) || g.rng.Intn(5) == 0, k, g.expr(0, depth-1, hAny, cur)})
	}
	return e
}

// nud generates a prefix form whose head is in hs.
func (g *Gen) nud(depth int, hs headSet, cur interface{}) *Ex {
	type choice struct {
		w int
		f func() *Ex
	}
	var cs []choice
	add := func(cond bool, w int, f func() *Ex) {
		if cond {
			cs = append(cs, choice{w, f})
		}
	}
	deep := depth > 0
	add(hs&(hIdent|hQuoted) != 0, 10, func() *Ex {
		e := g.identFor(cur)
		if e.Quoted && hs&hQuoted == 0 {
			e = &Ex{K: "ident", Name: keyPool[g.rng.Intn(len(keyPool))]}
		}
		if !e.Quoted && hs&hIdent == 0 {
			e.Quoted = true
		}
		return e
	})
	add(hs&hIdent != 0 && g.feat.Funcs && deep, 6, func() *Ex { return g.call(depth, cur) })
	add(hs&hMulti != 0 && deep, 3, func() *Ex { return g.multi(depth, cur) })
	add(hs&hStar != 0 && g.feat.Proj && !g.feat.OrderFree, 2, func() *Ex {
		return &Ex{K: "valproj", R: g.rhs(lvlStar, depth-1, firstElem(cur))}
	})
	add(hs&hBracket != 0, 3, func() *Ex {
		if g.feat.Proj && g.rng.Intn(2) == 0 {
			if g.rng.Intn(2) == 0 {
				return &Ex{K: "listproj", R: g.rhs(lvlStar, depth-1, firstElem(cur))}
			}
			e := &Ex{K: "slice", A: g.optInt(), B: g.optInt()}
			if g.rng.Intn(2) == 0 {
				e.C = g.optInt()
				if e.C == nil {
					// "[a:b:]" is spelled with the second colon and no step
					one := int64(1)
					if g.rng.Intn(2) == 0 {
						e.C = &one
					}
				}
			}
			e.R = g.rhs(lvlStar, depth-1, firstElem(cur))
			return e
		}
		return &Ex{K: "index", I: g.indexFor(cur)}
	})
	add(hs&hFilter != 0 && g.feat.Proj && deep, 2, func() *Ex {
		el := firstElem(cur)
		return &Ex{K: "filter", Cond: g.cond(depth-1, el), R: g.rhs(lvlFilter, depth-1, el)}
	})
	add(hs&hOther != 0, 2, func() *Ex { return &Ex{K: "current"} })
	add(hs&hOther != 0, 3, func() *Ex { return g.literal() })
	add(hs&hOther != 0 && deep && g.feat.Paren, 2, func() *Ex { return &Ex{K: "paren", E: g.expr(0, depth-1, hAny, cur)} })
	add(hs&hOther != 0 && deep && g.feat.Logic, 2, func() *Ex { return &Ex{K: "not", E: g.expr(lvlNot, depth-1, hAny, cur)} })
	add(hs&hOther != 0 && g.feat.Proj && deep, 1, func() *Ex {
		return &Ex{K: "flatten", R: g.rhs(lvlFlatten, depth-1, firstElem(cur))}
	})
	if len(cs) == 0 {
		return &Ex{K: "ident", Name: "a"}
	}
	total := 0
	for _, c := range cs {
		total += c.w
	}
	r := g.rng.Intn(total)
	for _, c := range cs {
		if r < c.w {
			return c.f()
		}
		r -= c.w
	}
	return cs[0].f()
}

func (g *Gen) cond(depth int, el interface{}) *Ex {
	old := g.feat
	g.feat.Logic = true
	defer func() { g.feat = old }()
	return g.expr(0, depth, hAny, el)
}

// expr generates an expression that is read as a whole in a context of level c.
func (g *Gen) expr(c int, depth int, hs headSet, cur interface{}) *Ex {
	left := g.nud(depth, hs, cur)
	steps := 0
	for depth > 0 && steps < 3 && g.rng.Intn(5) < 3 {
		steps++
		val := evalOn(left, cur)
		rl := left.rl()
		type op struct {
			p int
			f func() *Ex
		}
		var ops []op
		_, isObj := val.(map[string]interface{})
		_, isArr := val.([]interface{})
		add := func(cond bool, p int, f func() *Ex) {
			if cond && c < p && p <= rl {
				w := 1
				switch {
				case p == lvlDot && isObj:
					w = 6
				case (p == lvlBracket || p == lvlFilter || p == lvlFlatten) && isArr:
					w = 4
				case (p == lvlBracket || p == lvlFilter || p == lvlFlatten || p == lvlDot) && val == nil:
					w = 0
					if g.rng.Intn(8) == 0 {
						w = 1
					}
				}
				for i := 0; i < w; i++ {
					ops = append(ops, op{p, f})
				}
			}
		}
		add(true, lvlDot, func() *Ex {
			if g.feat.Proj && !g.feat.OrderFree && g.rng.Intn(6) == 0 {
				return &Ex{K: "valproj", L: left, R: g.rhs(lvlStar, depth-1, firstElem(val))}
			}
			return &Ex{K: "sub", L: left, Rt: g.expr(lvlDot, depth-1, hIdent|hQuoted|hMulti, val)}
		})
		add(true, lvlDot, func() *Ex {
			return &Ex{K: "sub", L: left, Rt: g.expr(lvlDot, depth-1, hIdent|hQuoted|hMulti, val)}
		})
		add(true, lvlBracket, func() *Ex {
			if g.feat.Proj && g.rng.Intn(2) == 0 {
				if g.rng.Intn(2) == 0 {
					return &Ex{K: "listproj", L: left, R: g.rhs(lvlStar, depth-1, firstElem(val))}
				}
				return &Ex{K: "slice", L: left, A: g.optInt(), B: g.optInt(), C: g.optInt(), R: g.rhs(lvlStar, depth-1, firstElem(val))}
			}
			return &Ex{K: "index", L: left, I: g.indexFor(val)}
		})
		add(g.feat.Proj, lvlFilter, func() *Ex {
			el := firstElem(val)
			return &Ex{K: "filter", L: left, Cond: g.cond(depth-1, el), R: g.rhs(lvlFilter, depth-1, el)}
		})
		add(g.feat.Proj, lvlFlatten, func() *Ex {
			return &Ex{K: "flatten", L: left, R: g.rhs(lvlFlatten, depth-1, firstElem(firstElem(val)))}
		})
		add(true, lvlPipe, func() *Ex { return &Ex{K: "pipe", L: left, Rt: g.expr(lvlPipe, depth-1, hAny, val)} })
		add(g.feat.Logic, lvlOr, func() *Ex { return &Ex{K: "or", L: left, Rt: g.expr(lvlOr, depth-1, hAny, cur)} })
		add(g.feat.Logic, lvlAnd, func() *Ex { return &Ex{K: "and", L: left, Rt: g.expr(lvlAnd, depth-1, hAny, cur)} })
		add(g.feat.Logic, lvlCmp, func() *Ex {
			ops := []string{"==", "!=", "<", "<=", ">", ">="}
			return &Ex{K: "cmp", Op: ops[g.rng.Intn(6)], L: left, Rt: g.expr(lvlCmp, depth-1, hAny, cur)}
		})
		if len(ops) == 0 {
			break
		}
		left = ops[g.rng.Intn(len(ops))].f()
	}
	return left
}

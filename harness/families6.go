package main

// Families added after the third round of seeded changes.

import (
	"encoding/json"
	"fmt"
	"strings"
	"sync"
	"time"

	jmespath "github.com/jmespath/go-jmespath"
)

// observeTimed: Search under a wall-clock bound (for inputs whose cost, not
// whose value, is what could go wrong)
func observeTimed(expr string, doc interface{}, limit time.Duration) (Obs, bool) {
	ch := make(chan Obs, 1)
	go func() { ch <- observeSearch(expr, doc) }()
	select {
	case o := <-ch:
		return o, true
	case <-time.After(limit):
		return Obs{Kind: "timeout"}, false
	}
}

// numbers in brackets written with leading zeros, signs, many digits (C01, C08)
func famNumberSpellings(r *Run) {
	arr := make([]interface{}, 13)
	for i := range arr {
		arr[i] = float64(i)
	}
	doc := map[string]interface{}{"a": arr}
	nums := []string{"0", "00", "010", "-010", "08", "-08", "013", "0012", "-0", "-00", "7", "-1", "012", "000000000000000000001", "-000000000000000000002", "0x10", "1e1", "+1", "1_0", "９"}
	for _, n := range nums {
		for _, e := range []string{"a[" + n + "]", "[" + n + "]", "a[" + n + ":]", "a[:" + n + "]", "a[::" + n + "]", "a[" + n + ":" + n + ":" + n + "]", "a[0:" + n + ":1]", "a[*][" + n + "]"} {
			d := interface{}(doc)
			if strings.HasPrefix(e, "[") {
				d = arr
			}
			r.addSearch("number-spellings", e, d, "exact")
			r.addAst("number-spellings", e, true)
		}
	}
}

// to_string on whole numbers between 2^53 and 1e22, join with empty strings,
// not_null with a failing later argument, sort_by with a bad key in the middle (C09, C10, C11)
func famFunctionEdges(r *Run) {
	doc := map[string]interface{}{
		"a": 1.0, "s": "x", "n": nil, "e": "", "o": map[string]interface{}{"k": 1.0},
		"rows":  []interface{}{map[string]interface{}{"a": 1.0}, map[string]interface{}{"a": "x"}, map[string]interface{}{"a": 2.0}},
		"rows2": []interface{}{map[string]interface{}{"a": "p"}, map[string]interface{}{"a": nil}, map[string]interface{}{"a": "q"}, map[string]interface{}{"a": "r"}},
		"rows3": []interface{}{map[string]interface{}{"a": 3.0}, map[string]interface{}{"b": 1.0}, map[string]interface{}{"a": 1.0}, map[string]interface{}{"a": 2.0}},
		"strs":  []interface{}{"", "a", "", "", "b", ""},
	}
	var exprs []string
	for _, n := range []string{"9007199254740993", "9223372036854775807", "9223372036854775808", "1e19", "-1e19", "1e20", "-1e20", "123456789012345678901",
		"999999999999999999999", "1e21", "1e22", "-9223372036854775809", "18446744073709551616", "4611686018427387904", "1.5e19", "2e19", "-0", "0", "1e-7", "123456.5"} {
		exprs = append(exprs, "to_string(`"+n+"`)", "[to_string(`"+n+"`)]", "to_string(sum([`"+n+"`, `0`]))", "to_number(to_string(`"+n+"`))", "to_string([`"+n+"`])")
	}
	for _, sep := range []string{",", "", "-", "ab"} {
		for _, l := range []string{"['', 'a']", "['', '', 'x', '', 'y']", "['', '']", "['']", "['a', '']", "['', 'a', '']", "strs", "[e, e, s]", "[]"} {
			exprs = append(exprs, "join('"+sep+"', "+l+")")
		}
	}
	exprs = append(exprs,
		"not_null(a, &s)", "not_null(`1`, `2`, `3`, &a)", "not_null(s, abs(s))", "not_null(a, no_such_func(a))", "not_null(a, merge(a))",
		"not_null(n, a, abs(s))", "not_null(n, &s)", "not_null(&s, a)", "not_null(a, a, &a)", "not_null(n, n, abs(s))", "not_null(abs(s), a)",
		"sort_by(rows, &a)", "sort_by(rows, &abs(a))", "sort_by(rows2, &a)", "sort_by(rows3, &a)", "[length(sort_by(rows, &a))]", "max_by(rows, &a)",
		"min_by(rows, &a)", "max_by(rows2, &a)", "min_by(rows3, &a)", "sort_by(rows3, &b)", "max_by(rows3, &b)", "sort_by(rows[::-1], &a)", "sort_by(rows2[::-1], &a)",
		"gone | o.type(@)", "gone | s.not_null(@, 'anonymous')", "gone | o.length(@)", "n | type(@)", "n | o.k", "gone | a.abs(@)", "gone | [a, type(@)]",
		"gone.type(@)", "gone.not_null(@, 'none')", "gone.to_string(@)", "gone.to_array(@)", "rows[*].b.type(@)", "rows[*].b.not_null(@, 'd')", "rows[*].b.length(@)",
		"o.gone.type(@)", "*.gone.type(@)", "rows[?b.type(@) == 'null']", "n.type(@)", "n[0].type(@)",
		"merge(@, {self: @})", "merge(o, {items: [o]})", "merge(o, @)", "merge(o, {k: o})", "merge({}, o, {o: o})",
		"merge(o, {z: a})", "merge(`{}`, o)", "[merge(o, {z: a}), o]",
	)
	for _, e := range exprs {
		r.addSearch("function-edges", e, doc, modeFor(e, doc))
	}
	// an empty object of the document as the first argument of merge
	doc2 := map[string]interface{}{"defaults": map[string]interface{}{}, "overrides": map[string]interface{}{"x": 1.0},
		"items": []interface{}{map[string]interface{}{"id": 1.0, "opts": map[string]interface{}{}}, map[string]interface{}{"id": 2.0, "opts": map[string]interface{}{"y": 2.0}}}}
	for _, e := range []string{"merge(defaults, overrides)", "items[*].merge(opts, {id: id})", "merge(defaults, overrides) | defaults", "[merge(defaults, overrides), defaults]",
		"to_array(items)[?id > `1`]", "not_null(gone, items)[?id > `1`].id", "to_array(items)[?id == `2`]"} {
		r.addSearch("function-edges", e, doc2, modeFor(e, doc2))
	}
}

// long chains of operators: cost, not value (C05)
func famChains(r *Run) {
	docs := []interface{}{map[string]interface{}{"a": true, "b": false, "n": nil}, map[string]interface{}{"a": []interface{}{1.0}, "b": "", "n": 0.0}}
	for _, d := range docs {
		for _, n := range []int{8, 24, 48, 80} {
			for _, op := range []string{"||", "&&", "|", "==", "<"} {
				for _, x := range []string{"a", "b", "n", "!a", "a.b"} {
					e := strings.Repeat(x+" "+op+" ", n) + x
					r.mark("chains", e, d)
					o, ok := observeTimed(e, d, 5*time.Second)
					r.count("chains:" + o.Kind)
					if !ok {
						r.violate("chains", e, d, "Search did not return within 5 s on an expression of "+fmt.Sprint(len(e))+" bytes", "a chain of "+fmt.Sprint(n)+" operators "+op)
						return
					}
					if o.Kind == "panic" {
						r.violate("chains", e, d, "panic", o.Msg)
					}
				}
			}
		}
	}
}

// thousands of distinct valid expressions through the one-shot functions of one process (C05, C13)
func famManyDistinct(r *Run) {
	doc := map[string]interface{}{"f": 1.0}
	for i := 0; i < r.n(3000, 12000); i++ {
		e := fmt.Sprintf("f%d || f", i)
		o := observeSearch(e, doc)
		if o.Kind == "panic" {
			r.violate("many-distinct", e, doc, "panic after "+fmt.Sprint(i)+" distinct valid expressions in one process", o.Msg)
			return
		}
		if o.Kind != "val" || o.Value != 1.0 {
			r.violate("many-distinct", e, doc, "wrong result after "+fmt.Sprint(i)+" distinct valid expressions in one process", o.String())
			return
		}
	}
	r.count("many-distinct:done")
}

// expressions that differ only inside their string tokens, one after the other in one process (C01, C13, C14)
func famNearTwins(r *Run) {
	doc := map[string]interface{}{"a b": 1.0, "a  b": 2.0, "a\tb": 3.0, "ab": 4.0, "a": map[string]interface{}{"b": 5.0}}
	groups := [][]string{
		{"\"a b\"", "\"a  b\"", "\"a\\tb\"", "\"ab\"", "a.b"},
		{"'x y'", "'x  y'", "'x\ty'", "'xy'", "'x y '"},
		{"`\"p q\"`", "`\"p  q\"`", "` \"p q\" `", "`\"pq\"`"},
		{"[ 'u v' , \"a b\" ]", "['u  v', \"a  b\"]", "['u v',\"a b\"]", "[  'u v'  ,  \"a b\"  ]"},
		{"a . b", "a.b", "a .b", "a\n.\nb"},
		{"\"a b\" || 'c d'", "\"a  b\" || 'c  d'", "\"a b\"||'c d'"},
	}
	for round := 0; round < r.n(2, 6); round++ {
		for _, g := range groups {
			for k := 0; k < len(g)*2; k++ {
				e := g[r.rng.Intn(len(g))]
				r.addSearch("near-twins", e, doc, "exact")
				r.addAst("near-twins", e, true)
			}
		}
	}
}

// MustCompile: the panic names the expression and the error, whatever characters they contain (C17)
func famMustCompileText(r *Run) {
	for _, e := range []string{"foo.%s", "%", "a %d b", "'%v", "\"%s", "foo[%x]", "`%`", "a.%%", "%!", "f(%[1]s)", "a b", "foo.", "[", "'unclosed"} {
		_, cerr := jmespath.Compile(e)
		if cerr == nil {
			continue
		}
		var msg string
		func() {
			defer func() {
				if p := recover(); p != nil {
					msg = fmt.Sprint(p)
				}
			}()
			jmespath.MustCompile(e)
		}()
		r.count("mustcompile-text")
		if msg == "" {
			r.violate("mustcompile-text", e, nil, "MustCompile did not panic although Compile fails", cerr.Error())
			continue
		}
		if !strings.Contains(msg, cerr.Error()) {
			r.violate("mustcompile-text", e, nil, "MustCompile's panic does not contain Compile's error", fmt.Sprintf("panic %q, error %q", msg, cerr.Error()))
		}
		if !strings.Contains(msg, e) && !strings.Contains(msg, fmt.Sprintf("%q", e)) {
			r.violate("mustcompile-text", e, nil, "MustCompile's panic does not name the expression", fmt.Sprintf("panic %q", msg))
		}
	}
}

// one Parser: failures that abandon the parse thousands of levels deep, then deep valid expressions (C13)
func famDeepParserLeak(r *Run) {
	p := jmespath.NewParser()
	steps := []string{}
	for _, d := range []int{3000, 6000, 4000, 2500} {
		steps = append(steps, strings.Repeat("(", d), strings.Repeat("(", 2000)+"a"+strings.Repeat(")", 2000), strings.Repeat("[", d), strings.Repeat("!", d))
	}
	steps = append(steps, strings.Repeat("(", 5000)+"a"+strings.Repeat(")", 5000), "[[[[a]]]]", "foo", "a || b")
	for k, e := range steps {
		r.mark("G-parser-deep", e[:min(len(e), 40)], nil)
		a1 := parseObs(p, e)
		a2 := parseObs(jmespath.NewParser(), e)
		if a1.Kind != a2.Kind || a1.Offset != a2.Offset {
			r.violate("G-parser-deep", e[:min(len(e), 60)], nil, fmt.Sprintf("Parse %d on a reused Parser differs from a fresh Parser", k+1),
				fmt.Sprintf("after parses abandoned thousands of levels deep; expression of %d bytes; reused=%s %s fresh=%s %s", len(e), a1.Kind, a1.Msg, a2.Kind, a2.Msg))
			return
		}
	}
	r.count("hist:deep-parser")
}

// every string over backslash, quote, backtick and a letter up to length 4, as a quoted
// identifier and inside a JSON literal in json.Marshal's spelling (C04, C14)
func famBackslashRuns(r *Run) {
	alpha := []string{"\\", "\"", "`", "a"}
	var strs []string
	var gen func(prefix string, n int)
	gen = func(prefix string, n int) {
		strs = append(strs, prefix)
		if n == 0 {
			return
		}
		for _, c := range alpha {
			gen(prefix+c, n-1)
		}
	}
	gen("", 4)
	for _, s := range strs {
		if s == "" {
			continue
		}
		if r.tier != "thorough" && r.rng.Intn(2) != 0 {
			continue
		}
		b, _ := json.Marshal(s)
		q := string(b)
		lit := "`" + strings.ReplaceAll(q, "`", "\\`") + "`"
		doc := map[string]interface{}{s: "marker"}
		for _, e := range []string{q, q + ".b", "{k: " + q + "}", lit, "[" + lit + ", " + q + "]"} {
			r.mark("backslash-runs", e, doc)
			o := observeSearch(e, doc)
			if o.Kind != "val" {
				r.violate("backslash-runs", e, doc, "a grammatical expression (json.Marshal's spelling of a string) is rejected", o.String())
			}
			r.addSearch("backslash-runs", e, doc, "exact")
		}
	}
}

// the negation of every comparison over the value universe (C07)
func famNotComparisons(r *Run) {
	u := valueUniverse()
	lit := func(v interface{}) *Ex { return &Ex{K: "lit", Lit: v} }
	ops := []string{"==", "!=", "<", "<=", ">", ">="}
	for _, x := range u {
		for _, y := range u {
			if r.tier != "thorough" && r.rng.Intn(6) != 0 {
				continue
			}
			for _, op := range ops {
				cmp := &Ex{K: "paren", E: &Ex{K: "cmp", Op: op, L: lit(x), Rt: lit(y)}}
				for _, t := range []*Ex{
					{K: "not", E: cmp},
					{K: "not", E: &Ex{K: "not", E: cmp}},
					{K: "or", L: &Ex{K: "not", E: cmp}, Rt: &Ex{K: "raw", Name: "fallback"}},
					{K: "and", L: &Ex{K: "not", E: cmp}, Rt: &Ex{K: "raw", Name: "then"}},
				} {
					r.addTree("not-comparison", t, t.text(textOpts{}), nil, "exact")
				}
			}
		}
	}
	doc := map[string]interface{}{"vals": []interface{}{1.0, "a", nil, 3.0, true, []interface{}{}, 2.0}}
	for _, e := range []string{"vals[?!(@ < `2`)]", "vals[?!(@ >= `2`)]", "vals[?!(@ == `2`)]", "vals[?!!(@ > `1`)]", "vals[?!(@ <= 'a')]", "vals[*].[!(@ < `2`)]"} {
		r.addSearch("not-comparison", e, doc, "exact")
	}
}

// two function-local struct types with the same name and different layouts (C13, C18)
func sameNameDocsA() []interface{} {
	type row struct {
		Name  string  `json:"name"`
		Count float64 `json:"count"`
	}
	return []interface{}{[]row{{"washer", 2}, {"screw", 5}}, row{"nut", 1}, &row{"bolt", 9}}
}
func sameNameDocsB() []interface{} {
	type row struct {
		Count float64 `json:"count"`
		Price float64 `json:"price"`
		Name  string  `json:"name"`
	}
	return []interface{}{[]row{{2, 9.5, "washer"}, {5, 1.25, "screw"}}, row{1, 0.5, "nut"}, &row{9, 3, "bolt"}}
}
func sameNameDocsC() []interface{} {
	type row struct {
		Price float64 `json:"price"`
	}
	return []interface{}{[]row{{9.5}, {1.25}}, row{0.5}, struct {
		Age  float64 `json:"age"`
		Name string  `json:"name"`
	}{42, "bob"}, struct {
		Name string  `json:"name"`
		Age  float64 `json:"age"`
	}{"al", 7}, struct {
		City string `json:"city"`
	}{"Oslo"}}
}

func famSameNameTypes(r *Run) {
	var docs []interface{}
	docs = append(docs, sameNameDocsA()...)
	docs = append(docs, sameNameDocsB()...)
	docs = append(docs, sameNameDocsC()...)
	exprs := []string{"name", "count", "price", "[*].name", "[*].price", "[*].count", "[name, count, price]", "age", "city", "{n: name, a: age, c: city}", "[*].[name, price]"}
	for round := 0; round < r.n(3, 12); round++ {
		for _, text := range exprs {
			jp, err := jmespath.Compile(text)
			if err != nil {
				continue
			}
			for k := 0; k < len(docs); k++ {
				d := docs[r.rng.Intn(len(docs))]
				r.mark("G-same-name-types", text, nil)
				got := obsOfSearchCompiled(jp, d)
				one := observeSearch(text, d)
				gen, err := normalise(d)
				if err != nil {
					continue
				}
				want := observeSearch(text, gen)
				for _, g := range []Obs{got, one} {
					if canonGo(g) != canonGo(want) {
						r.violate("G-same-name-types", text, gen, "result on a Go struct document differs from the result on its JSON form (documents of other struct types were searched before)",
							fmt.Sprintf("document type %T: got %s, JSON form gives %s", d, canonGo(g), canonGo(want)))
						return
					}
				}
			}
		}
	}
	r.count("same-name-types")
}

// concurrent flattening of lists that share their first sub-list, which has spare capacity (C12)
func famConcFlatten(r *Run) {
	for round := 0; round < r.n(10, 80); round++ {
		first := make([]interface{}, 2, 8)
		first[0], first[1] = "s0", "s1"
		docs := make([]interface{}, 8)
		want := make([]string, 8)
		jp, _ := jmespath.Compile("[a, b][]")
		for i := range docs {
			docs[i] = map[string]interface{}{"a": first, "b": []interface{}{fmt.Sprintf("only-in-%d", i), float64(i)}}
		}
		for i := range docs {
			want[i] = canon(obsOfSearchCompiled(jp, deepCopy(docs[i])), false)
		}
		var wg sync.WaitGroup
		var mu sync.Mutex
		bad := ""
		for gi := 0; gi < 8; gi++ {
			wg.Add(1)
			go func(gi int) {
				defer wg.Done()
				for c := 0; c < 200; c++ {
					if s := canon(obsOfSearchCompiled(jp, docs[gi]), false); s != want[gi] {
						mu.Lock()
						if bad == "" {
							bad = fmt.Sprintf("goroutine %d call %d: got %s, alone it returns %s", gi, c, s, want[gi])
						}
						mu.Unlock()
						return
					}
				}
			}(gi)
		}
		wg.Wait()
		if bad != "" {
			r.violate("G-conc-flatten", "[a, b][]", docs[0], "a concurrent call returned something else than the same call made alone (documents share the list a, which has spare capacity)", bad)
			return
		}
		if full := first[:cap(first)]; full[2] != nil {
			r.violate("G-conc-flatten", "[a, b][]", docs[0], "storage behind the end of a document's list was written", fmt.Sprintf("slot 2 of the shared list now holds %v", full[2]))
			return
		}
	}
	r.count("conc:flatten")
}

// invalid UTF-8 in a quoted identifier right before a point where the parser expects another token (C17)
func famBadUTF8Offsets(r *Run) {
	for _, q := range []string{"\"\xff\xfe\"", "\"\xff\"", "\"a\xff\xff\xffb\"", "\"\xe4\xb8\"", "\"\xf0\x9f\"", "\"ok\""} {
		for _, e := range []string{"{" + q, "{" + q + " ", "{" + q + "]", "[" + q, "[" + q + " x", q + ".", "f(" + q, "{a: " + q, q + "[", "{" + q + ": a", "{" + q + ":", "a[?" + q, q + " " + q} {
			c := r.addAst("bad-utf8-offsets", e, true)
			if c != nil {
				r.contractC17("bad-utf8-offsets", e)
			}
		}
	}
}

package main

// Families added after the fourth round of seeded changes.

import (
	"encoding/json"
	"fmt"
	"reflect"
	"strings"

	jmespath "github.com/jmespath/go-jmespath"
)

// chains and nestings longer than a hundred operators: same value as short ones (C01, C03, C05, C15)
func famLongChains(r *Run) {
	for _, n := range []int{100, 129, 130, 200, 257} {
		// a.a.a...a on a document nested that deep
		var d interface{} = 7.0
		for i := 0; i < n; i++ {
			d = map[string]interface{}{"a": d}
		}
		r.addSearch("long-chains", strings.Repeat("a.", n-1)+"a", d, "exact")
		r.addSearch("long-chains", strings.Repeat("a.", n-1)+"b", d, "exact")
		var arr interface{} = "leaf"
		for i := 0; i < n; i++ {
			arr = []interface{}{arr, 1.0}
		}
		r.addSearch("long-chains", strings.Repeat("[0]", n), arr, "exact")
		r.addSearch("long-chains", "@"+strings.Repeat("[0]", n), arr, "exact")
		small := map[string]interface{}{"a": 1.0, "b": nil, "c": []interface{}{1.0, 2.0}}
		r.addSearch("long-chains", "'x'"+strings.Repeat(" | @", n), small, "exact")
		r.addSearch("long-chains", "a"+strings.Repeat(" | @", n), small, "exact")
		r.addSearch("long-chains", strings.Repeat("b || ", n)+"a", small, "exact")
		r.addSearch("long-chains", strings.Repeat("a && ", n)+"c", small, "exact")
		r.addSearch("long-chains", strings.Repeat("!", n)+"a", small, "exact")
		r.addSearch("long-chains", strings.Repeat("(", n)+"a"+strings.Repeat(")", n), small, "exact")
		r.addSearch("long-chains", strings.Repeat("[", n)+"a"+strings.Repeat("]", n), small, "exact")
		r.addSearch("long-chains", strings.Repeat("abs(", n)+"a"+strings.Repeat(")", n), small, "exact")
		r.addSearch("long-chains", strings.Repeat("to_array(", n)+"a"+strings.Repeat(")", n)+"[0]", small, "exact")
		r.addSearch("long-chains", "c"+strings.Repeat("[*]", n), small, "exact")
		r.addSearch("long-chains", "c"+strings.Repeat("[]", n), small, "exact")
		r.addSearch("long-chains", strings.Repeat("{k: ", n)+"a"+strings.Repeat("}", n)+strings.Repeat(".k", n), small, "exact")
		r.addSearch("long-chains", "c[?"+strings.Repeat("@ == @ && ", n)+"@]", small, "exact")
	}
}

// == != and contains on objects whose key sets differ while sizes agree, with null members (C02, C07, C09)
func famObjectEquality(r *Run) {
	var d interface{}
	json.Unmarshal([]byte(`{"x":{"a":null},"y":{"b":null},"z":{"a":null},"p":{"a":null,"c":1},"q":{"b":null,"c":1},
	 "l":[{"a":null},{"b":null},{"a":1},{"a":null}],"rows":[{"id":1,"x":{"p":null,"q":2},"y":{"r":null,"q":2}},{"id":2,"x":{"a":null},"y":{"b":null}},{"id":3,"x":{"k":null},"y":{"k":null}}],
	 "nest":[[{"a":null}],[{"b":null}]],"deep":{"o":{"a":null,"l":[{"m":null}]}},"deep2":{"o":{"a":null,"l":[{"n":null}]}},"e":{},"n":null}`), &d)
	exprs := []string{
		"x == y", "x != y", "x == z", "y == x", "p == q", "p != q", "q == p", "x == e", "e == x", "x == n", "deep == deep2", "deep != deep2", "nest[0] == nest[1]",
		"l[?@ == `{\"a\": null}`]", "l[?@ != `{\"a\": null}`]", "l[?@ == `{\"b\": null}`]", "l[?`{\"a\": null}` == @]", "rows[?x == y].id", "rows[?x != y].id", "rows[?y == x].id",
		"rows[*].[x == y, id]", "[x, y, z][?@ == `{\"a\": null}`]", "*[?@ == `{\"a\": null}`]", "l[?@ == x]", "l[?@ == y] | length(@)", "rows[?x == y && id > `1`].id",
		"contains(l, `{\"b\": null}`)", "contains(l, `{\"c\": null}`)", "contains(l, y)", "contains(l, e)", "contains([x], y)", "contains([y], x)", "contains([x], z)",
		"contains(nest, `[{\"b\": null}]`)", "contains(nest, `[{\"c\": null}]`)", "contains([deep], deep2)", "contains(`[{\"a\": null}]`, `{\"b\": null}`)", "contains(rows[*].x, `{\"b\": null}`)",
		"contains(rows[*].x, `{\"a\": null}`)", "l[?contains([x], @)]", "!(x == y)", "x == y || p == q", "x == y && x == z", "[x == y, p == q, x == z]",
	}
	for _, e := range exprs {
		r.addSearch("object-equality", e, d, modeFor(e, d))
	}
}

// exactly one whitespace character, of each kind, at each token boundary of texts that need none (C03, C14)
func famSingleWs(r *Run) {
	var d interface{}
	json.Unmarshal([]byte(`{"a":0,"b":1,"c":{"d":[5,6]},"e":[{"f":[1]},{"f":[2]}],"f":2,"g":[1,2,3],"s":"x"}`), &d)
	texts := [][]string{
		{"a", "||", "b"}, {"e", "[*]", ".", "f", "|", "[0]"}, {"c", ".", "d", "[", "1", "]"}, {"f", "==", "`2`"}, {"a", "&&", "b"}, {"a", "<=", "b"}, {"!", "a"},
		{"g", "[?", "@", ">", "`1`", "]"}, {"{", "k", ":", "a", ",", "l", ":", "b", "}"}, {"length", "(", "g", ")"}, {"'x'", "|", "\"s\""}, {"g", "[", "0", ":", "2", "]"},
		{"e", "[]", ".", "f", "[]"}, {"c", ".", "*"}, {"a", "!=", "b", "||", "s"}, {"max_by", "(", "e", ",", "&", "f", "[", "0", "]", ")"}, {"@", ".", "b"}, {"g", "[", "-1", "]"},
		{"a", "|", "b"}, {"a", ">=", "b"}, {"a", "<", "b"}, {"a", ">", "b"},
	}
	for _, toks := range texts {
		for i := 0; i <= len(toks); i++ {
			for _, w := range []string{" ", "\t", "\n", "\r", "\r\n", "\n\r", "\r\r", " \r"} {
				e := strings.Join(toks[:i], "") + w + strings.Join(toks[i:], "")
				r.addSearch("single-ws", e, d, "exact")
				r.addTok("single-ws", e)
			}
		}
	}
}

// quoted identifiers holding a raw control character, with and without a backslash elsewhere (C04, C05, C14)
func famQuotedControl(r *Run) {
	d := map[string]interface{}{"a\nb": 1.0, "a\tb": 2.0, "\x00": 3.0, "a": map[string]interface{}{"x\ry": 4.0}, "\x7f": 5.0, "a b": 6.0}
	for c := 0; c <= 0x20; c++ {
		ch := string(rune(c))
		qs := []string{"\"a" + ch + "b\"", "\"" + ch + "\"", "\"a" + ch + "\\\\b\"", "\"x" + ch + "\"", "\"" + ch + "y\"", "\"\\\"" + ch + "\""}
		if r.tier != "thorough" {
			qs = qs[:3]
		}
		for _, q := range qs {
			tmpl := []string{q, "a." + q, "{" + q + ": a}", "[" + q + "]", q + " || a", "a[?" + q + "]", "{k: " + q + "}"}
			if r.tier != "thorough" {
				tmpl = tmpl[:3]
			}
			for _, e := range tmpl {
				r.addAst("quoted-control", e, true)
				r.addSearch("quoted-control", e, d, "exact")
			}
		}
	}
	for _, q := range []string{"\"\x7f\"", "\"a\x7fb\"", "\"a b\"", "\"\u0080\"", "\"\u2028\""} {
		r.addAst("quoted-control", q, true)
		r.addSearch("quoted-control", q, d, "exact")
	}
}

// syntax errors reported at or after a quoted identifier whose bytes are not UTF-8, and bad
// escapes inside quoted identifiers: no panic, offset inside the expression (C05, C17, C04)
func famBadQuoted(r *Run) {
	for _, q := range []string{"\"\xff\xfe\"", "\"\xff\xff\"", "\"\x80\x80\"", "\"\xc3\xc3\xc3\"", "\"a\xff\xff\xffb\"", "\"\xf0\x9f\"", "\"\\u12\"", "\"\\u\"", "\"\\u123\"", "\"\\uAB\"",
		"\"\\x\"", "\"\\\"", "\"\\u12", "\"\\uD800\"", "\"\\uDC00x\"", "\"\\u00\"", "\"a\\", "\"\\q\"", "\"\\ \"", "\"ok\""} {
		for _, e := range []string{q, "a " + q, "a[" + q + "]", "{a: b " + q + "}", "a[1 " + q, "foo." + q, "a.b | c." + q, q + " " + q, "(" + q, "f(" + q, "f(a " + q + ")", "{" + q, "[" + q,
			"a." + q + ".b", q + "(a)", "a || " + q, "[?" + q + "]", "a[?b " + q + "]", "a[*]" + q, "`1` " + q, "'x' " + q, "@ " + q, "a, " + q, q + "]", q + "}"} {
			c := r.addAst("bad-quoted", e, true)
			if c != nil {
				r.contractC17("bad-quoted", e)
			}
		}
	}
}

// infinities and NaN made by overflow, handed to every function: errors or values, never a panic (C05, C09, C10)
func famNonFinite(r *Run) {
	d := map[string]interface{}{"a": []interface{}{1e308, 1e308}, "b": []interface{}{-1e308, -1e308}, "one": 1.0, "s": "x"}
	vals := []string{"sum(a)", "sum(b)", "sum([sum(a), sum(b)])", "avg([sum(a), one])", "[sum(a)]", "[sum(a), one, sum(b)]", "{k: sum(a)}", "[[sum(b)], one]"}
	for _, v := range vals {
		var exprs []string
		for _, s := range fsigs {
			exprs = append(exprs, s.name+"("+v+")", s.name+"("+v+", "+v+")", s.name+"("+v+", &@)", s.name+"(&@, "+v+")", s.name+"('x', "+v+")", s.name+"("+v+", 'x')")
		}
		exprs = append(exprs, v, v+" == "+v, v+" < one", v+" > one", "one < "+v, "!"+v, v+" || one", v+" && one", "["+v+"][?@ > `0`]", v+" | to_string(@)", "to_string("+v+") | length(@)",
			"to_string(["+v+"])", "to_string({k: "+v+"})", "join(',', [to_string("+v+")])", "[to_string("+v+"), one]", "to_number(to_string(one)) | ["+v+", @]")
		for _, e := range exprs {
			r.mark("non-finite", e, d)
			o := observeSearch(e, d)
			r.count("nonfinite:" + o.Kind)
			if o.Kind == "panic" {
				r.violate("non-finite", e, d, "panic on a value that overflowed to an infinity or NaN", o.Msg)
			}
		}
	}
}

// documents holding Go integers, sized integers, float32 and slices of them: every
// function returns an error or a value, never panics (C10, C18)
func famGoNumbers(r *Run) {
	type holder struct {
		N   []int
		N64 []int64
		U8  []uint8
		F32 []float32
		I   int
		M   map[string]int
		Mix []interface{}
	}
	h := holder{N: []int{3, 1, 2}, N64: []int64{5, 4}, U8: []uint8{1, 2}, F32: []float32{1.5, 2.5}, I: 7, M: map[string]int{"k": 1}, Mix: []interface{}{1, 2.0, int64(3), "s"}}
	docs := []struct {
		doc    interface{}
		fields []string
	}{
		{[]int{1, 2, 3}, []string{"@"}},
		{[]interface{}{1, 2}, []string{"@", "[0]"}},
		{[]interface{}{int64(1), uint(2), float32(3)}, []string{"@", "[1]"}},
		{map[string]interface{}{"n": []int{1, 2, 3}, "i": 5, "m": map[string]int{"a": 1}, "u": []uint16{9}, "mix": []interface{}{1, "a"}}, []string{"n", "i", "m", "u", "mix", "n[0]", "mix[0]", "@"}},
		{h, []string{"N", "N64", "U8", "F32", "I", "M", "Mix", "N[0]", "Mix[0]", "@"}},
		{&h, []string{"N", "F32", "I", "Mix[2]"}},
		{[]float32{1, 2}, []string{"@"}},
		{[]int64{}, []string{"@"}},
	}
	for _, dc := range docs {
		for _, s := range fsigs {
			for _, f := range dc.fields {
				for _, e := range []string{s.name + "(" + f + ")", s.name + "(" + f + ", " + f + ")", s.name + "(" + f + ", &@)", s.name + "(&@, " + f + ")", s.name + "(',', " + f + ")", s.name + "(" + f + ", `1`)"} {
					r.mark("go-numbers", e, nil)
					o := observeSearch(e, dc.doc)
					r.count("gonum:" + o.Kind)
					if o.Kind == "panic" {
						r.violate("go-numbers", e, nil, "panic on a document holding Go integers / sized numbers"+describeGo(dc.doc), o.Msg)
					}
				}
			}
		}
		for _, f := range dc.fields {
			for _, e := range []string{f + " == `1`", f + " < `2`", f + " > " + f, "[" + f + "][?@ > `0`]", f + "[0]", f + "[1:]", f + "[*]", f + "[]", f + ".*", f + " || 'x'", "!" + f, "{k: " + f + "}", "[" + f + ", " + f + "]"} {
				r.mark("go-numbers", e, nil)
				o := observeSearch(e, dc.doc)
				r.count("gonum:" + o.Kind)
				if o.Kind == "panic" {
					r.violate("go-numbers", e, nil, "panic on a document holding Go integers / sized numbers"+describeGo(dc.doc), o.Msg)
				}
			}
		}
	}
}

// a compiled expression after more than a thousand failed evaluations, and after one
// evaluation that failed deep inside a large array, still gives what a fresh one gives (C13)
func famHistLong(r *Run) {
	type hcase struct {
		text      string
		bad, good interface{}
		repeat    int
	}
	big := make([]interface{}, 0, 600)
	big = append(big, 1.0)
	for i := 0; i < 599; i++ {
		big = append(big, "s")
	}
	deep := map[string]interface{}{"a": map[string]interface{}{"b": map[string]interface{}{"c": "s"}}}
	deepOK := map[string]interface{}{"a": map[string]interface{}{"b": map[string]interface{}{"c": -2.0}}}
	cases := []hcase{
		{"abs(@)", "s", -3.0, 1500},
		{"sort_by(@, &abs(@))[0]", big, []interface{}{3.0, -1.0, 2.0}, 3},
		{"map(&abs(@), @)", big, []interface{}{-1.0, 2.0}, 3},
		{"[*].abs(@)", big, []interface{}{-1.0}, 3},
		{"a.b.abs(c)", deep, deepOK, 1500},
		{"[abs(a.b.c), a]", deep, deepOK, 1200},
		{"max_by(@, &abs(@))", big, []interface{}{-5.0, 2.0}, 3},
		{"@[::0]", []interface{}{1.0}, "not an array", 1500},
		{"length(abs(@))", "s", nil, 1100},
		{"nosuch(@)", 1.0, 2.0, 1100},
	}
	for _, c := range cases {
		jp, err := jmespath.Compile(c.text)
		if err != nil {
			continue
		}
		r.mark("G-hist-long", c.text, c.good)
		for i := 0; i < c.repeat; i++ {
			obsOfSearchCompiled(jp, c.bad)
		}
		got := obsOfSearchCompiled(jp, deepCopy(c.good))
		fresh, _ := jmespath.Compile(c.text)
		want := obsOfSearchCompiled(fresh, deepCopy(c.good))
		if canon(got, false) != canon(want, false) {
			r.violate("G-hist-long", c.text, c.good, fmt.Sprintf("after %d failed evaluations a compiled expression no longer gives what a fresh one gives", c.repeat), "got "+got.String()+" want "+want.String())
		}
		one := observeSearch(c.text, deepCopy(c.good))
		if canon(one, false) != canon(want, false) {
			r.violate("G-hist-long", c.text, c.good, "one-shot Search differs from a fresh compiled expression", "got "+one.String()+" want "+want.String())
		}
		r.count("hist:long")
		r.addSearch("G-hist-long", c.text, deepCopy(c.good), "exact")
	}
}

// strings that hold JSON text, as documents and as intermediate results of a pipe: they stay strings (C15, C01)
func famPipeJSONStrings(r *Run) {
	var d interface{}
	json.Unmarshal([]byte(`{"a":[1,2],"o":{"k":1},"j":"{\"k\": 1}","jl":"[1, 2]","js":" [true] ","jn":"null","s":["[1","2]"]}`), &d)
	as := []string{"to_string(@)", "to_string(a)", "to_string(o)", "j", "jl", "js", "jn", "join(',', s)", "to_string(to_string(a))", "[jl, j]", "not_null(jl)", "jl || j"}
	bs := []string{"length(@)", "type(@)", "keys(@)", "@[0]", "k", "@", "to_array(@)", "[@, @]", "to_number(@)", "reverse(@)", "contains(@, '1')", "starts_with(@, '[')"}
	for _, ta := range as {
		for _, tb := range bs {
			whole := ta + " | " + tb
			r.mark("pipe-json-strings", whole, d)
			ow := observeSearch(whole, deepCopy(d))
			oa := observeSearch(ta, deepCopy(d))
			want := oa
			if oa.Kind == "val" {
				want = observeSearch(tb, oa.Value)
			}
			if canon(ow, false) != canon(want, false) {
				r.violate("pipe-json-strings", whole, d, "Search('A | B', d) differs from Search(B, Search(A, d))", ow.String()+" vs "+want.String())
			}
			r.addSearch("pipe-json-strings", whole, d, "exact")
		}
	}
	// the document itself is a string (or bytes' worth of text) holding JSON
	for _, doc := range []interface{}{"[1, 2]", "{\"k\": 1}", " {\"k\": [1]} ", "null", "[", "\"x\"", "[1, 2] trailing"} {
		for _, e := range []string{"@", "length(@)", "type(@)", "k", "[0]", "keys(@)", "to_array(@)", "@ | type(@)", "[@][0]", "reverse(@)"} {
			r.addSearch("pipe-json-strings", e, doc, "exact")
		}
	}
}

// jpgo: input documents wrapped in characters that Unicode, but not JSON, counts as white space
func cliNonJSONSpace() []string {
	var out []string
	for _, w := range []string{"\f", "\v", "\u0085", "\u00a0", "\u2028", "\u3000", "\ufeff", "\u2003", "\x00", "\x1c"} {
		out = append(out, w+"{\"a\": 1}", "{\"a\": 1}"+w, w+"[1, 2]"+w, " "+w+" {\"a\": 1}")
	}
	return out
}

// documents decoded with json.Decoder.UseNumber (numbers are json.Number values): Search leaves
// them as they are, value by value and type by type (C06)
func famJSONNumberDocs(r *Run) {
	texts := []string{`{"a": {"n": 1}, "xs": [1, 2.5, {"k": 3}], "s": "x"}`, `[1, [2, {"z": 3.5}], "t"]`, `{"n": 10, "m": {"deep": [[1e2]]}}`, `7`}
	exprs := []string{"s", "a", "a.n", "xs", "xs[0]", "xs[*]", "xs[2].k", "@", "*", "[0]", "[1][1].z", "length(@)", "to_string(@)", "xs[?@ > `1`]", "sum(xs)", "abs(a.n)",
		"nosuch(@)", "xs[::0]", "a.n == `1`", "sort(xs)", "max(xs)", "to_number(a.n)", "type(a.n)", "keys(@)", "values(@)", "not_null(a.n, s)", "[a.n, xs[1]]", "{k: a.n}", "n", "m.deep[0][0]", "avg(xs)"}
	for _, t := range texts {
		for _, e := range exprs {
			dec := json.NewDecoder(strings.NewReader(t))
			dec.UseNumber()
			var doc, snap interface{}
			if dec.Decode(&doc) != nil {
				continue
			}
			dec2 := json.NewDecoder(strings.NewReader(t))
			dec2.UseNumber()
			dec2.Decode(&snap)
			r.mark("json-number-docs", e, nil)
			o := observeSearch(e, doc)
			r.count("jsonnumber:" + o.Kind)
			if !reflect.DeepEqual(doc, snap) {
				r.violate("json-number-docs", e, nil, "document decoded with UseNumber was modified by Search (a json.Number value replaced or changed)",
					fmt.Sprintf("document text %s; after the call: %#v", t, doc))
			}
			if jp, err := jmespath.Compile(e); err == nil {
				obsOfSearchCompiled(jp, doc)
				if !reflect.DeepEqual(doc, snap) {
					r.violate("json-number-docs", e, nil, "document decoded with UseNumber was modified by a compiled expression's Search", fmt.Sprintf("document text %s; after the call: %#v", t, doc))
				}
			}
		}
	}
}

package main

// Families added after the seventh (reduced) round of seeded changes.

import (
	"encoding/json"
	"fmt"
	"reflect"
	"sync"

	jmespath "github.com/jmespath/go-jmespath"
)

// arrays compared with a strict prefix of themselves, at top level and nested (C05, C07, C09)
func famArrayPrefixEq(r *Run) {
	var d interface{}
	json.Unmarshal([]byte(`{"a":[1,2],"b":[1],"e":[],"n":[[1,2],[3]],"m":[[1,2]],"xs":[{"v":["x","y"]},{"v":["x"]},{"v":[]}],"s":["x"],"o":{"k":[1,2,3]},"o2":{"k":[1,2]}}`), &d)
	for _, e := range []string{"a == b", "b == a", "a != b", "a == e", "e == a", "n == m", "m == n", "`[1, 2]` == `[1]`", "`[1]` == `[1, 2]`", "`[1, 2]` != `[1]`", "xs[?v != `[\"x\"]`]", "xs[?v == `[\"x\"]`]",
		"xs[?v == `[]`]", "xs[?v != `[]`] | length(@)", "contains(n, `[1]`)", "contains(n, `[1, 2]`)", "contains([a], b)", "contains([b], a)", "o == o2", "o2 == o", "a == `[1, 2, 3]`", "`[[1, 2], [3]]` == `[[1, 2]]`",
		"[a, b] == [a]", "[a] == [a, b]", "s == `[\"x\", \"y\"]`", "`[\"x\", \"y\"]` == s", "a[:1] == b", "a == a[:1]", "!(a == b)", "a == b || e == a"} {
		r.addSearch("array-prefix-eq", e, d, "exact")
	}
}

// documents with typed []float64 / []string fields and Go integers: sorting, joining and averaging them
// leaves the document as it was, alone and while other goroutines read it (C06, C12)
func famTypedSliceSort(r *Run) {
	type rec struct {
		Tags  []string  `json:"tags"`
		Temps []float64 `json:"temps"`
		Name  string    `json:"name"`
	}
	mk := func() []interface{} {
		return []interface{}{
			&rec{Tags: []string{"zulu", "alpha", "mike"}, Temps: []float64{3, 1, 2}, Name: "r"},
			rec{Tags: []string{"b", "a"}, Temps: []float64{2, 1}},
			map[string]interface{}{"tags": []string{"q", "p"}, "temps": []float64{9, 8}, "rows": []interface{}{[]float64{3, 2}, []string{"y", "x"}}, "count": 64, "limit": uint8(3), "items": []interface{}{map[string]interface{}{"qty": 1}}},
			[]float64{5, 4, 6}, []string{"c", "a", "b"},
		}
	}
	exprs := []string{"sort(tags)", "sort(temps)", "max(temps)", "min(tags)", "avg(temps)", "sum(temps)", "join(',', tags)", "map(&sort(@), rows)", "sort(@)", "reverse(tags)", "sort(tags) | [0]", "tags[0]", "temps[0]",
		"count", "items[0].qty", "limit", "[count, limit]", "count == `64`", "length(tags)", "tags[?@ > 'a']", "sort_by(items, &qty)", "to_array(count)", "not_null(limit, count)"}
	docs, snaps := mk(), mk()
	for i, doc := range docs {
		for _, e := range exprs {
			r.mark("typed-slice-sort", e, nil)
			o := observeSearch(e, doc)
			r.count("typedsort:" + o.Kind)
			if !reflect.DeepEqual(doc, snaps[i]) {
				r.violate("typed-slice-sort", e, nil, "a document holding typed Go slices or Go integers was modified by Search (values or their Go types)"+describeGo(doc), fmt.Sprintf("after the call: %#v", doc))
				docs, snaps = mk(), mk()
				doc = docs[i]
			}
			if jp, err := jmespath.Compile(e); err == nil {
				obsOfSearchCompiled(jp, doc)
				if !reflect.DeepEqual(doc, snaps[i]) {
					r.violate("typed-slice-sort", e, nil, "a document holding typed Go slices or Go integers was modified by a compiled expression's Search"+describeGo(doc), fmt.Sprintf("after the call: %#v", doc))
					docs, snaps = mk(), mk()
					doc = docs[i]
				}
			}
		}
	}
	if r.prop != "C12" {
		return
	}
	// concurrently: writers (sort, join, avg) and readers of the same typed slices and integers
	docs = mk()
	for i, doc := range docs[:3] {
		readers := []string{"tags[0]", "temps[0]", "join(',', tags)", "count", "items[0].qty"}
		want := map[string]string{}
		for _, e := range readers {
			want[e] = canonGo(observeSearch(e, mk()[i]))
		}
		var wg sync.WaitGroup
		var mu sync.Mutex
		bad := ""
		for gi := 0; gi < 8; gi++ {
			wg.Add(1)
			go func(gi int) {
				defer wg.Done()
				for c := 0; c < r.n(60, 400); c++ {
					if gi%2 == 0 {
						observeSearch([]string{"sort(tags)", "sort(temps)", "avg(temps)", "count", "limit"}[(gi/2+c)%5], doc)
						continue
					}
					e := readers[(gi+c)%len(readers)]
					if got := canonGo(observeSearch(e, doc)); got != want[e] {
						mu.Lock()
						if bad == "" {
							bad = fmt.Sprintf("goroutine %d call %d: %s got %s, alone it returns %s", gi, c, e, got, want[e])
						}
						mu.Unlock()
						return
					}
				}
			}(gi)
		}
		wg.Wait()
		if bad != "" {
			r.violate("typed-slice-sort", "sort(tags) etc. with concurrent readers", nil, "a concurrent call on a shared document of typed Go slices returned something else than the same call made alone"+describeGo(doc), bad)
		}
	}
}

// MustCompile against Compile on expressions that begin or end with characters that Unicode, but not
// JMESPath, counts as white space (C17)
func famUnicodeSpaceEnds(r *Run) {
	for _, w := range []string{"\v", "\f", "\u0085", "\u00a0", "\u2028", "\u2003", "\u3000", "\ufeff", "\u1680", "\x00"} {
		for _, e := range []string{"foo" + w, w + "foo.bar", "foo[0]" + w, w + "foo | bar", w + "foo" + w, "foo" + w + "bar", " " + w + "a", "a" + w + " ", w} {
			c := r.addAst("unicode-space-ends", e, true)
			if c != nil {
				r.contractC17("unicode-space-ends", e)
			}
		}
	}
}

// an AST returned by a Parser stays what it was after the Parser parses something else; and results that
// hold what a JSON round trip would change, through the one-shot Search and a compiled expression (C13)
func famParserKeepsResults(r *Run) {
	p := jmespath.NewParser()
	type kept struct {
		expr, text string
		node       jmespath.ASTNode
	}
	var olds []kept
	for _, e := range []string{"foo.bar", "baz.qux", "a[0].b", "x || y", "[a, b]", "{k: v}", "foo bar", "length(a)", "a | b | c", "foo.bar", "*.x[?y > `1`]", "'lit'", "`[1, 2]`", "a.b.c.d.e.f", "!q"} {
		n, err := p.Parse(e)
		if err == nil {
			olds = append(olds, kept{e, fmt.Sprintf("%v", n), n})
		}
		for _, k := range olds {
			if now := fmt.Sprintf("%v", k.node); now != k.text {
				r.violate("G-parser-keeps-results", k.expr, nil, "the AST returned for an earlier expression changed when the same Parser parsed "+fmt.Sprintf("%q", e), "was "+k.text+" now "+now)
				return
			}
		}
	}
	r.count("hist:parser-keeps")
	type owner struct {
		Name string `json:"name"`
	}
	docs := []interface{}{
		map[string]interface{}{"name": "caf\xe9", "n": 3, "o": owner{"ann"}, "p": &owner{"bob"}, "l": []string{"x"}, "u": uint16(7)},
		owner{"zed"}, []interface{}{1, int64(2), "a\xffb"},
	}
	for _, doc := range docs {
		for _, e := range []string{"[name, `[]`]", "{o: o, l: `{}`}", "[@, `[1]`]", "[n, `[]`]", "[p, `{}`][0]", "[l, `[]`]", "{u: u, e: `[]`}", "[[0], `[]`]", "[[2], `{}`]", "not_null(name, `[]`)", "[name, `1`]", "[o, 'x']", "`[]` && name", "[`{}`, @][1]"} {
			one := observeSearch(e, doc)
			var comp Obs
			if jp, err := jmespath.Compile(e); err == nil {
				comp = obsOfSearchCompiled(jp, doc)
			} else {
				comp = Obs{Kind: "compile-error"}
			}
			if one.Kind != comp.Kind || (one.Kind == "val" && !reflect.DeepEqual(one.Value, comp.Value)) {
				r.violate("G-oneshot-literals", e, nil, "one-shot Search differs from Compile followed by Search on the same document (values or their Go types)"+describeGo(doc), fmt.Sprintf("one-shot %#v compiled %#v", one.Value, comp.Value))
			}
		}
	}
}

package main

// Families whose oracle is a Go-side predicate over several calls:
// C13 (histories, parser reuse), C14 (names and constants), C15 (pipe, referential transparency).

import (
	"encoding/json"
	"fmt"
	"strings"

	jmespath "github.com/jmespath/go-jmespath"
)

func init() {
	families["C13"] = famC13
	families["C14"] = famC14
	families["C15"] = famC15
}

func obsOfSearchCompiled(jp *jmespath.JMESPath, doc interface{}) (o Obs) {
	defer func() {
		if r := recover(); r != nil {
			o = Obs{Kind: "panic", Msg: fmt.Sprint(r)}
		}
	}()
	res, err := jp.Search(doc)
	if err != nil {
		return Obs{Kind: "evalerr", Msg: err.Error()}
	}
	return Obs{Kind: "val", Value: res}
}

// canon: a comparable rendering of an observation; arrays are sorted when the
// expression exposes object iteration order.
// canonFor: when the expression exposes the iteration order of an object with
// several members, two correct calls may return different values (an index or a
// slice of a wildcard result), not merely permuted ones: only the kind of outcome
// is compared then, as in the comparison with the model (modeFor).
func canonFor(o Obs, perm bool, text string, doc interface{}) string {
	if perm && modeFor(text, doc) == "kind" {
		if o.Kind == "val" || o.Kind == "evalerr" {
			return "returns" // even value-versus-error can depend on the exposed order
		}
		return o.Kind
	}
	return canon(o, perm)
}

func canon(o Obs, perm bool) string {
	if o.Kind != "val" {
		return o.Kind
	}
	v := o.Value
	if perm {
		v = sortArrays(deepCopy(v))
	}
	b, err := json.Marshal(v)
	if err != nil {
		return "unserialisable:" + err.Error()
	}
	return "val:" + string(b) + nilShape(v)
}

func sortArrays(v interface{}) interface{} {
	switch x := v.(type) {
	case []interface{}:
		keys := make([]string, len(x))
		for i := range x {
			x[i] = sortArrays(x[i])
			b, _ := json.Marshal(x[i])
			keys[i] = string(b)
		}
		// insertion sort by key
		for i := 1; i < len(x); i++ {
			for j := i; j > 0 && keys[j] < keys[j-1]; j-- {
				keys[j], keys[j-1] = keys[j-1], keys[j]
				x[j], x[j-1] = x[j-1], x[j]
			}
		}
		return x
	case map[string]interface{}:
		for k := range x {
			x[k] = sortArrays(x[k])
		}
		return x
	}
	return v
}

// ---- C13 ----
func famC13(r *Run) {
	g := &Gen{rng: r.rng, feat: Features{Proj: true, Logic: true, Funcs: true, BadCalls: true, Paren: true}}
	nexpr := r.n(500, 6000)
	maxCalls := r.n(8, 50)
	for i := 0; i < nexpr; i++ {
		root := g.rootDoc()
		t := g.expr(0, 4, hAny, root)
		if r.rng.Intn(3) == 0 {
			// literals held by the compiled AST are shared between calls
			t = &Ex{K: "pipe", L: &Ex{K: "lit", Lit: g.doc(2)}, Rt: g.call(3, g.doc(2))}
		}
		text := t.text(textOpts{})
		perm := featuresOf(text).orderExposing
		jp, err := jmespath.Compile(text)
		if err != nil {
			r.addAst("G-hist-compile-error", text, false)
			continue
		}
		docs := []interface{}{root}
		for k := 0; k < 3; k++ {
			docs = append(docs, g.rootDoc())
		}
		ncalls := 2 + r.rng.Intn(maxCalls-1)
		var hist []string
		for k := 0; k < ncalls; k++ {
			d := docs[r.rng.Intn(len(docs))]
			if r.rng.Intn(2) == 0 {
				d = docs[0]
			}
			db, _ := json.Marshal(d)
			hist = append(hist, string(db))
			r.mark("G-hist", text, d)
			got := obsOfSearchCompiled(jp, d)
			// against a fresh compile and against the one-shot function, on a private copy
			fresh, _ := jmespath.Compile(text)
			want := obsOfSearchCompiled(fresh, deepCopy(d))
			one := observeSearch(text, deepCopy(d))
			if canonFor(got, perm, text, d) != canonFor(want, perm, text, d) {
				r.violate("G-hist", text, d, fmt.Sprintf("call %d on a used compiled expression differs from a fresh one", k+1),
					"history: "+strings.Join(hist, " ; ")+" got "+got.String()+" want "+want.String())
				break
			}
			if canonFor(one, perm, text, d) != canonFor(want, perm, text, d) {
				r.violate("G-hist", text, d, "one-shot Search differs from Compile+Search", "one-shot "+one.String()+" compiled "+want.String())
				break
			}
		}
		r.count("hist:calls")
		// the model side: the first call
		r.addTree("G-hist", t, text, deepCopy(docs[0]), modeFor(text, docs[0]))
	}
	// parser reuse
	var exprs []string
	for _, c := range loadCompliance() {
		exprs = append(exprs, c.Expr)
	}
	// expressions that fail in the middle of a token (whatever a lexer or parser keeps
	// from a failed call must not leak into the next one), and ones that show it
	exprs = append(exprs, "'abc\\'def", "'a\\'", "'x'", "'\\'y\\''", "\"abc", "`[1,", "`1`", "\"k\"", "foo['a\\'b", "[?a=='x\\'", "'p' | 'q\\'r'", "a.'b'")
	for i := 0; i < r.n(400, 6000); i++ {
		p := jmespath.NewParser()
		n := 2 + r.rng.Intn(8)
		var hist []string
		for k := 0; k < n; k++ {
			e := exprs[r.rng.Intn(len(exprs))]
			if r.rng.Intn(4) == 0 {
				e = exprs[len(exprs)-1-r.rng.Intn(12)]
			}
			if r.rng.Intn(3) == 0 {
				e = r.mutate(e)
			}
			hist = append(hist, e)
			r.mark("G-parser-reuse", e, nil)
			a1 := parseObs(p, e)
			a2 := parseObs(jmespath.NewParser(), e)
			if a1.coq() != a2.coq() {
				r.violate("G-parser-reuse", e, nil, fmt.Sprintf("Parse %d on a reused Parser differs from a fresh Parser", k+1),
					fmt.Sprintf("history: %q reused=%s fresh=%s", hist, a1.Kind+" "+a1.Msg, a2.Kind+" "+a2.Msg))
				break
			}
			if k == n-1 {
				r.addAst("G-parser-reuse", e, true)
			}
		}
	}
	famC13extra(r)
	famDeepParserLeak(r)
	famNearTwins(r)
	famManyDistinct(r)
	famSameNameTypes(r)
	famHistLong(r)
	famOneShotStructs(r)
	famSlicePairs(r)
	famHistArity(r)
	famParserKeepsResults(r)
}

func parseObs(p *jmespath.Parser, expr string) (a AObs) {
	defer func() {
		if r := recover(); r != nil {
			a = AObs{Kind: "panic", Msg: fmt.Sprint(r)}
		}
	}()
	n, err := p.Parse(expr)
	if err != nil {
		o := classifyCompileErr(err)
		return AObs{Kind: o.Kind, Offset: o.Offset, Msg: o.Msg}
	}
	return AObs{Kind: "ok", Node: jmespath.VerifAST(n)}
}

// ---- C14 ----
func (r *Run) randomString() string {
	pools := []string{"a", "b", "Z", "_", "0", "9", " ", "\t", "\n", "\"", "'", "`", "\\", "/", "ü", "é", "日", "本", "😀", "\u0000", "\u001f", "\u007f", "\u0080", " ", "￿", "\ufffd", "\ufffc", "\U0001d11e", "\u2029", "<", "&", ".", "-", "[", "|"}
	n := r.rng.Intn(7)
	var b strings.Builder
	for i := 0; i < n; i++ {
		b.WriteString(pools[r.rng.Intn(len(pools))])
	}
	return b.String()
}

// adversarialQuote spells s as a JSON string with random legal escape choices.
func (r *Run) adversarialQuote(s string) string {
	var b strings.Builder
	b.WriteByte('"')
	for _, c := range s {
		switch {
		case c == '"' || c == '\\':
			b.WriteByte('\\')
			b.WriteRune(c)
		case c < 0x20:
			switch c {
			case '\n':
				if r.rng.Intn(2) == 0 {
					b.WriteString("\\n")
					continue
				}
			case '\t':
				if r.rng.Intn(2) == 0 {
					b.WriteString("\\t")
					continue
				}
			}
			fmt.Fprintf(&b, "\\u%04x", c)
		case c == '/' && r.rng.Intn(2) == 0:
			b.WriteString("\\/")
		case c > 0xffff:
			if r.rng.Intn(2) == 0 {
				c -= 0x10000
				fmt.Fprintf(&b, "\\u%04x\\u%04X", 0xd800+(c>>10), 0xdc00+(c&0x3ff))
			} else {
				b.WriteRune(c)
			}
		case r.rng.Intn(5) == 0:
			fmt.Fprintf(&b, "\\u%04X", c)
		default:
			b.WriteRune(c)
		}
	}
	b.WriteByte('"')
	return b.String()
}

func famC14(r *Run) {
	g := &Gen{rng: r.rng, feat: Features{Hostile: true}}
	marker := "MARKER"
	for i := 0; i < r.n(1200, 20000); i++ {
		s := r.randomString()
		// quoted identifier selects exactly the key s
		doc := map[string]interface{}{s: marker, s + "x": "other", "": "empty"}
		if s == "" {
			doc[""] = marker
		}
		for _, q := range []string{quoteIdent(s), r.adversarialQuote(s)} {
			c := r.addSearch("quoted-identifier", q, doc, "exact")
			if c != nil && !(c.goObs.Kind == "val" && c.goObs.Value == marker) {
				r.violate("quoted-identifier", q, doc, "quoted identifier does not select the key it spells", c.goObs.String())
			}
		}
		// raw string denotes exactly s
		if rawSpellable(s) {
			e := rawSpelling(s)
			c := r.addSearch("raw-string", e, nil, "exact")
			if c != nil && !(c.goObs.Kind == "val" && c.goObs.Value == s) {
				r.violate("raw-string", e, nil, "raw string does not denote the written string", c.goObs.String())
			}
		}
		// a JSON literal denotes exactly its value
		v := g.doc(3)
		if r.rng.Intn(2) == 0 {
			v = s
		}
		for _, sp := range []string{litSpelling(v, nil), litSpelling(v, r.rng)} {
			c := r.addSearch("json-literal", sp, nil, "exact")
			if c != nil && !(c.goObs.Kind == "val" && jsonEqual(c.goObs.Value, v)) {
				r.violate("json-literal", sp, nil, "JSON literal does not denote the written value", c.goObs.String())
			}
		}
		r.addTok("lexer", quoteIdent(s)+" . "+rawOrLit(s))
	}
	// unquoted identifiers are exactly [A-Za-z_][A-Za-z0-9_]*
	alphabet := []byte("aZ_09 -.$\x80\xc3\xa9@")
	var rec func(prefix []byte, depth int)
	rec = func(prefix []byte, depth int) {
		if len(prefix) > 0 {
			s := string(prefix)
			t := observeTokens(s)
			isIdent := t.Kind == "ok" && len(t.Toks) == 2 && t.Toks[0].TypeName == "tUnquotedIdentifier" && t.Toks[0].Value == s
			if isIdent != validUnquoted(s) {
				r.violate("unquoted-identifier", s, nil, "lexer and the identifier syntax [A-Za-z_][A-Za-z0-9_]* disagree", t.Kind)
			}
			r.addTok("unquoted-identifier", s)
		}
		if depth == 0 {
			return
		}
		for _, c := range alphabet {
			rec(append(append([]byte{}, prefix...), c), depth-1)
		}
	}
	rec(nil, r.n(3, 4))
	// whitespace between tokens is insignificant
	g2 := &Gen{rng: r.rng, feat: Features{Proj: true, Logic: true, Funcs: true, Paren: true}}
	for i := 0; i < r.n(500, 8000); i++ {
		doc := g2.rootDoc()
		t := g2.expr(0, 4, hAny, doc)
		tight := t.text(textOpts{})
		spaced := t.text(textOpts{rng: r.rng, spaces: true})
		a, b := observeCompile(tight), observeCompile(spaced)
		if a.Kind != b.Kind || (a.Kind == "ok" && !sameNode(a.Node, b.Node)) {
			r.violate("whitespace", tight, nil, "whitespace between tokens changes the parse", spaced)
		}
		r.addTree("whitespace", t, spaced, doc, modeFor(spaced, doc))
	}
	for _, c := range loadCompliance() {
		if c.File == "identifiers.json" || c.File == "literal.json" || c.File == "escape.json" || c.File == "unicode.json" {
			r.addSearch("compliance:"+c.File, c.Expr, c.Given, modeFor(c.Expr, c.Given))
			r.addTok("compliance:"+c.File, c.Expr)
		}
	}
	famC14extra(r)
	famNearTwins(r)
	famBackslashRuns(r)
	famSingleWs(r)
	famQuotedControl(r)
	famNonASCIIBare(r)
	famCaseTwins(r)
	famMultiRawTargeted(r)
	famLiteralEscapes(r)
}

func rawOrLit(s string) string {
	if rawSpellable(s) {
		return rawSpelling(s)
	}
	return litSpelling(s, nil)
}

// ---- C15 ----
func famC15(r *Run) {
	g := &Gen{rng: r.rng, feat: Features{Proj: true, Logic: true, Funcs: true, BadCalls: true, Paren: true, OrderFree: true}}
	// targeted: the value a step hands on must stay what it was while the next step runs
	{
		var d interface{}
		json.Unmarshal([]byte(`{"a":"x","b":"y","n":[3,1,2],"o":{"k":1},"s":["q","p"],"e":[],"z":null}`), &d)
		as := []string{"to_array(a)", "to_array(b)", "to_array(o)", "[a, b]", "sort(s)", "reverse(s)", "map(&@, s)", "to_array(n[0])",
			"not_null(z, a)", "merge(o, o)", "keys(o)", "s[?@ == 'q']", "z", "e", "to_string(a)"}
		bs := []string{"join(',', @)", "[to_array('w'), @]", "[@, to_array(`1`)]", "length(@)", "@[0]", "to_array(@)", "reverse(@)",
			"sort_by(@, &@)", "map(&to_array(@), @)", "[join('-', @), @]", "type(@)", "not_null(@[1], @[0])", "contains(@, 'x')",
			"'lit'", "@ == `null`", "max_by(@, &@)"}
		for _, ta := range as {
			for _, tb := range bs {
				whole := ta + " | " + tb
				r.mark("pipe-targeted", whole, d)
				ow := observeSearch(whole, deepCopy(d))
				oa := observeSearch(ta, deepCopy(d))
				want := oa
				if oa.Kind == "val" {
					want = observeSearch(tb, oa.Value)
				}
				if canon(ow, false) != canon(want, false) {
					r.violate("pipe-targeted", whole, d, "Search('A | B', d) differs from Search(B, Search(A, d))", ow.String()+" vs "+want.String())
				}
				r.addSearch("pipe-targeted", whole, d, "exact")
			}
		}
	}
	for i := 0; i < r.n(1200, 20000); i++ {
		doc := g.rootDoc()
		a := g.expr(0, 3, hAny, doc)
		mid := evalOn(a, doc)
		b := g.expr(0, 3, hAny, mid)
		ta, tb := a.text(textOpts{}), b.text(textOpts{})
		whole := ta + " | " + tb
		r.mark("pipe", whole, doc)
		ow := observeSearch(whole, deepCopy(doc))
		oa := observeSearch(ta, deepCopy(doc))
		var want Obs
		if oa.Kind != "val" {
			want = oa
		} else {
			want = observeSearch(tb, oa.Value)
		}
		if ow.Kind == "val" && want.Kind == "val" {
			if canon(ow, false) != canon(want, false) {
				r.violate("pipe", whole, doc, "Search('A | B', d) differs from Search(B, Search(A, d))", ow.String()+" vs "+want.String())
			}
		} else if (ow.Kind == "val") != (want.Kind == "val") {
			r.violate("pipe", whole, doc, "'A | B' fails exactly when a step fails: violated", ow.String()+" vs "+want.String())
		}
		t := &Ex{K: "pipe", L: a, Rt: b}
		if b.K == "pipe" || b.rl() < lvlTop && false {
			t = &Ex{K: "pipe", L: a, Rt: &Ex{K: "paren", E: b}}
		}
		r.addSearch("pipe", whole, doc, "exact")
		_ = t
		// referential transparency: replace a root-evaluated sub-expression by its value
		if oa.Kind == "val" {
			if ok, _ := isJSONData(oa.Value); ok {
				lit := &Ex{K: "lit", Lit: oa.Value}
				ctxs := []func(h *Ex) *Ex{
					func(h *Ex) *Ex { return &Ex{K: "mslist", Es: []*Ex{h, {K: "current"}}} },
					func(h *Ex) *Ex { return &Ex{K: "pipe", L: &Ex{K: "paren", E: h}, Rt: b} },
					func(h *Ex) *Ex { return &Ex{K: "or", L: &Ex{K: "paren", E: h}, Rt: &Ex{K: "raw", Name: "dflt"}} },
					func(h *Ex) *Ex { return &Ex{K: "cmp", Op: "==", L: &Ex{K: "paren", E: h}, Rt: &Ex{K: "paren", E: h}} },
					func(h *Ex) *Ex { return &Ex{K: "call", Name: "to_array", Args: []Arg{{false, h}}} },
					func(h *Ex) *Ex { return &Ex{K: "call", Name: "type", Args: []Arg{{false, h}}} },
					func(h *Ex) *Ex { return &Ex{K: "mshash", KVs: []KV{{false, "k", h}}} },
					func(h *Ex) *Ex { return &Ex{K: "not", E: &Ex{K: "paren", E: h}} },
				}
				c := ctxs[r.rng.Intn(len(ctxs))]
				e1, e2 := c(a).text(textOpts{}), c(lit).text(textOpts{})
				o1, o2 := observeSearch(e1, deepCopy(doc)), observeSearch(e2, deepCopy(doc))
				if canon(o1, false) != canon(o2, false) {
					r.violate("referential-transparency", e1, doc, "replacing a sub-expression by the literal of its value changes the result", e2+": "+o1.String()+" vs "+o2.String())
				}
				r.addSearch("referential-transparency", e2, doc, "exact")
			}
		}
	}
	famFunctionEdges(r)
	famPipeJSONStrings(r)
	famLongChains(r)
	famPipeNonFinite(r)
	famLateErrors(r)
	famCallSequences(r)
}

package main

// Function-call generation: signatures as the JMESPath function specification
// gives them (used only to aim the generator; the oracle is in Coq).

import "sort"

type fsig struct {
	name     string
	params   []string // "num" "str" "arr" "obj" "arrnum" "arrstr" "any" "expref", alternatives joined by |
	variadic bool
}

var fsigs = []fsig{
	{"abs", []string{"num"}, false}, {"avg", []string{"arrnum"}, false}, {"ceil", []string{"num"}, false},
	{"contains", []string{"arr|str", "any"}, false}, {"ends_with", []string{"str", "str"}, false},
	{"floor", []string{"num"}, false}, {"join", []string{"str", "arrstr"}, false}, {"keys", []string{"obj"}, false},
	{"length", []string{"str|arr|obj"}, false}, {"map", []string{"expref", "arr"}, false},
	{"max", []string{"arrnum|arrstr"}, false}, {"max_by", []string{"arr", "expref"}, false},
	{"merge", []string{"obj"}, true}, {"min", []string{"arrnum|arrstr"}, false},
	{"min_by", []string{"arr", "expref"}, false}, {"not_null", []string{"any"}, true},
	{"reverse", []string{"arr|str"}, false}, {"sort", []string{"arrnum|arrstr"}, false},
	{"sort_by", []string{"arr", "expref"}, false}, {"starts_with", []string{"str", "str"}, false},
	{"sum", []string{"arrnum"}, false}, {"to_array", []string{"any"}, false},
	{"to_number", []string{"any"}, false}, {"to_string", []string{"any"}, false},
	{"type", []string{"any"}, false}, {"values", []string{"obj"}, false},
}

var orderExposing = map[string]bool{"keys": true, "values": true}

func sortedKeys(m map[string]interface{}) []string {
	keys := make([]string, 0, len(m))
	for k := range m {
		keys = append(keys, k)
	}
	sort.Strings(keys)
	return keys
}

func kindOf(v interface{}) []string {
	switch x := v.(type) {
	case nil:
		return []string{"null", "any"}
	case bool:
		return []string{"bool", "any"}
	case float64:
		return []string{"num", "any"}
	case string:
		return []string{"str", "any"}
	case map[string]interface{}:
		return []string{"obj", "any"}
	case []interface{}:
		ks := []string{"arr", "any"}
		allNum, allStr := true, true
		for _, e := range x {
			if _, ok := e.(float64); !ok {
				allNum = false
			}
			if _, ok := e.(string); !ok {
				allStr = false
			}
		}
		if allNum {
			ks = append(ks, "arrnum")
		}
		if allStr {
			ks = append(ks, "arrstr")
		}
		return ks
	}
	return nil
}

func hasKind(v interface{}, want string) bool {
	for _, alt := range splitAlt(want) {
		for _, k := range kindOf(v) {
			if k == alt {
				return true
			}
		}
	}
	return false
}

func splitAlt(s string) []string {
	var out []string
	cur := ""
	for i := 0; i < len(s); i++ {
		if s[i] == '|' {
			out = append(out, cur)
			cur = ""
		} else {
			cur += string(s[i])
		}
	}
	return append(out, cur)
}

func (g *Gen) litOfKind(kind string) interface{} {
	alts := splitAlt(kind)
	k := alts[g.rng.Intn(len(alts))]
	n := g.rng.Intn(4)
	switch k {
	case "num":
		return numPool[g.rng.Intn(len(numPool))]
	case "str":
		return strPool[g.rng.Intn(len(strPool))]
	case "obj":
		m := map[string]interface{}{}
		for i := 0; i < n; i++ {
			m[g.key()] = g.scalar()
		}
		return m
	case "arrnum":
		out := []interface{}{}
		for i := 0; i < n; i++ {
			f := numPool[g.rng.Intn(len(numPool))]
			if g.rng.Intn(4) == 0 {
				f = -f
			}
			out = append(out, f)
		}
		return out
	case "arrstr":
		out := []interface{}{}
		for i := 0; i < n; i++ {
			out = append(out, strPool[g.rng.Intn(len(strPool))])
		}
		return out
	case "arr":
		out := []interface{}{}
		for i := 0; i < n; i++ {
			out = append(out, g.doc(1))
		}
		return out
	}
	return g.doc(2)
}

// argOfKind builds an expression whose value (against cur) has the kind, and
// returns that value when known.
func (g *Gen) argOfKind(kind string, depth int, cur interface{}) (*Ex, interface{}) {
	// a field of cur of the right kind
	if m, ok := cur.(map[string]interface{}); ok && g.rng.Intn(4) != 0 {
		var cands []string
		for _, k := range sortedKeys(m) {
			if hasKind(m[k], kind) {
				cands = append(cands, k)
			}
		}
		if len(cands) > 0 {
			k := cands[g.rng.Intn(len(cands))]
			return &Ex{K: "ident", Quoted: !validUnquoted(k), Name: k}, m[k]
		}
	}
	if hasKind(cur, kind) && g.rng.Intn(3) != 0 {
		return &Ex{K: "current"}, cur
	}
	if depth > 1 && g.feat.Funcs && g.rng.Intn(6) == 0 {
		e := g.expr(0, depth-1, hAny, cur)
		return e, evalOn(e, cur)
	}
	v := g.litOfKind(kind)
	if s, ok := v.(string); ok && g.rng.Intn(2) == 0 && rawSpellable(s) {
		return &Ex{K: "raw", Name: s}, v
	}
	return &Ex{K: "lit", Lit: v}, v
}

func (g *Gen) keyExpr(depth int, elem interface{}) *Ex {
	if m, ok := elem.(map[string]interface{}); ok && len(m) > 0 && g.rng.Intn(5) != 0 {
		keys := sortedKeys(m)
		k := keys[g.rng.Intn(len(keys))]
		return &Ex{K: "ident", Quoted: !validUnquoted(k), Name: k}
	}
	if g.rng.Intn(3) != 0 {
		return &Ex{K: "current"}
	}
	return g.expr(0, depth-1, hAny, elem)
}

var badNames = []string{"foo", "Abs", "abs2", "lenght", "tostring", "_", "sort_", "MAP"}
var kindsAll = []string{"num", "str", "arr", "obj", "arrnum", "arrstr", "any"}

func (g *Gen) call(depth int, cur interface{}) *Ex {
	var sig fsig
	for {
		sig = fsigs[g.rng.Intn(len(fsigs))]
		if !(g.feat.OrderFree && orderExposing[sig.name]) {
			break
		}
	}
	e := &Ex{K: "call", Name: sig.name}
	params := append([]string{}, sig.params...)
	if sig.variadic {
		for i := 0; i < g.rng.Intn(3); i++ {
			params = append(params, sig.params[len(sig.params)-1])
		}
	}
	var arrVal interface{}
	for i, p := range params {
		if p == "expref" {
			// the array argument decides what the key expression sees
			var elem interface{}
			if arrVal != nil {
				elem = firstElem(arrVal)
			} else if i+1 < len(params) {
				// map(&expr, arr): generate the array first
				ae, av := g.argOfKind(params[i+1], depth-1, cur)
				arrVal = av
				elem = firstElem(av)
				e.Args = append(e.Args, Arg{true, g.keyExpr(depth-1, elem)}, Arg{false, ae})
				break
			}
			e.Args = append(e.Args, Arg{true, g.keyExpr(depth-1, elem)})
			continue
		}
		ae, av := g.argOfKind(p, depth-1, cur)
		if p == "arr" {
			arrVal = av
		}
		e.Args = append(e.Args, Arg{false, ae})
	}
	if g.feat.BadCalls && g.rng.Intn(3) == 0 {
		switch g.rng.Intn(5) {
		case 0:
			e.Name = badNames[g.rng.Intn(len(badNames))]
		case 1:
			if len(e.Args) > 0 {
				e.Args = e.Args[:len(e.Args)-1]
			}
		case 2:
			ae, _ := g.argOfKind("any", depth-1, cur)
			e.Args = append(e.Args, Arg{false, ae})
		case 3:
			if len(e.Args) > 0 {
				i := g.rng.Intn(len(e.Args))
				ae, _ := g.argOfKind(kindsAll[g.rng.Intn(len(kindsAll))], depth-1, cur)
				e.Args[i] = Arg{g.rng.Intn(4) == 0, ae}
			}
		case 4:
			if len(e.Args) > 0 {
				i := g.rng.Intn(len(e.Args))
				e.Args[i].Ref = !e.Args[i].Ref
			}
		}
	}
	return e
}

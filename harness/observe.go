package main

// Running the real library on one input and classifying what it did.

import (
	"encoding/json"
	"fmt"
	"math/rand"
	"reflect"
	"sync"

	jmespath "github.com/jmespath/go-jmespath"
)

// Obs is what one call did. Kind: "val", "syn", "comperr", "evalerr", "panic", "nonjson".
type Obs struct {
	Kind   string      `json:"kind"`
	Offset int         `json:"offset,omitempty"`
	Value  interface{} `json:"value,omitempty"`
	Msg    string      `json:"msg,omitempty"`
}

func (o Obs) coq() string {
	switch o.Kind {
	case "val":
		s, ok := coqValue(o.Value)
		if !ok {
			return "ONonJson"
		}
		return "(OVal " + s + ")"
	case "syn":
		return "(OSyn " + coqZ(int64(o.Offset)) + ")"
	case "comperr":
		return "OCompErr"
	case "evalerr":
		return "OEvalErr"
	case "panic":
		return "OPanic"
	}
	return "ONonJson"
}

// short description for evidence / replay files
func (o Obs) String() string {
	switch o.Kind {
	case "val":
		b, err := json.Marshal(o.Value)
		if err != nil {
			return fmt.Sprintf("value(unserialisable: %v)", err)
		}
		return "value " + string(b)
	case "syn":
		return fmt.Sprintf("SyntaxError@%d", o.Offset)
	default:
		if o.Msg != "" {
			return o.Kind + ": " + o.Msg
		}
		return o.Kind
	}
}

func classifyCompileErr(err error) Obs {
	if se, ok := err.(jmespath.SyntaxError); ok {
		return Obs{Kind: "syn", Offset: se.Offset, Msg: se.Error()}
	}
	return Obs{Kind: "comperr", Msg: err.Error()}
}

// Interference: between two observed calls the harness sometimes makes calls whose
// outcome it ignores - failing expressions, cut in the middle of a token, and
// expressions that fail when evaluated.  No call may influence a later one (C13,
// C12), so on a library that keeps no state across calls these change nothing and
// can never cause an alarm; on one that does (a pooled lexer or parser, a cache, a
// counter) the observed call differs from what the model, which has no history,
// computes.  The calls made before an observation are recorded with the case
// ("prelude") and replayed with it.
var interRng *rand.Rand
var pendingPrelude []string
var interMu sync.Mutex

var poisonPool = []string{
	"'it\\'s", "'a\\'b\\'c", "'\\'", "'abc", "\"ab\\\"c", "\"k", "`{\"a\": \\`", "`[1, 2", "foo[?a == 'x\\'y", "[?a=='q\\'", "a.'b\\'c",
	"((((((((a", "[[[[[[a", "{a: {b: {c: ", "f(g(h(&", "a.b.", "a[", "a[?b", "a ||", "!", "foo(", "'p' | 'q\\'r", "a | 'x\\'y' | `\"z\\``",
	"abs('x')", "sort_by(@, &a)", "length(`1`)", "nosuch(@)", "a.b.c[0].d", "'ok\\'fine'", "\"quoted\\\"name\"",
}
var poisonDoc interface{} = map[string]interface{}{"a": []interface{}{1.0, "x", nil}, "foo": map[string]interface{}{"b": 2.0}}

func runPoison(p string) {
	defer func() { recover() }()
	switch len(p) % 3 {
	case 0:
		jmespath.Search(p, poisonDoc)
	case 1:
		jmespath.Compile(p)
	default:
		jmespath.NewParser().Parse(p)
		jmespath.Search(p, nil)
	}
}

func interfere(expr string) {
	if interRng == nil {
		return
	}
	interMu.Lock()
	var ps []string
	if interRng.Intn(4) == 0 {
		for i := 0; i < 1+interRng.Intn(2); i++ {
			if interRng.Intn(3) == 0 && len(expr) > 1 {
				ps = append(ps, expr[:1+interRng.Intn(len(expr)-1)])
			} else {
				ps = append(ps, poisonPool[interRng.Intn(len(poisonPool))])
			}
		}
		pendingPrelude = append(pendingPrelude, ps...)
	}
	interMu.Unlock()
	for _, p := range ps {
		runPoison(p)
	}
}

func peekPrelude() []string {
	interMu.Lock()
	defer interMu.Unlock()
	return append([]string(nil), pendingPrelude...)
}

func takePrelude() []string {
	interMu.Lock()
	defer interMu.Unlock()
	p := pendingPrelude
	pendingPrelude = nil
	return p
}

// observeSearch runs the one-shot Search. A compile-stage error is told apart
// from an evaluation error by compiling separately first.
func observeSearch(expr string, doc interface{}) (o Obs) {
	interfere(expr)
	defer func() {
		if r := recover(); r != nil {
			o = Obs{Kind: "panic", Msg: fmt.Sprint(r)}
		}
	}()
	if _, cerr := jmespath.Compile(expr); cerr != nil {
		_, serr := jmespath.Search(expr, doc)
		if serr == nil {
			return Obs{Kind: "nonjson", Msg: "Compile failed but Search succeeded"}
		}
		return classifyCompileErr(cerr)
	}
	res, err := jmespath.Search(expr, doc)
	if err != nil {
		return Obs{Kind: "evalerr", Msg: err.Error()}
	}
	return Obs{Kind: "val", Value: res}
}

// AObs is what Compile did, with the AST on success.
type AObs struct {
	Kind   string
	Offset int
	Msg    string
	Node   jmespath.VerifNode
}

func (a AObs) coq() string {
	switch a.Kind {
	case "ok":
		s, ok := coqNode(a.Node)
		if !ok {
			return "APanic"
		}
		return "(AOk " + s + ")"
	case "syn":
		return "(ASyn " + coqZ(int64(a.Offset)) + ")"
	case "comperr":
		return "ACompErr"
	}
	return "APanic"
}

func observeCompile(expr string) (a AObs) {
	interfere(expr)
	defer func() {
		if r := recover(); r != nil {
			a = AObs{Kind: "panic", Msg: fmt.Sprint(r)}
		}
	}()
	jp, err := jmespath.Compile(expr)
	if err != nil {
		o := classifyCompileErr(err)
		return AObs{Kind: o.Kind, Offset: o.Offset, Msg: o.Msg}
	}
	return AObs{Kind: "ok", Node: jmespath.VerifCompiledAST(jp)}
}

// TObs is what the lexer did.
type TObs struct {
	Kind   string
	Offset int
	Msg    string
	Toks   []jmespath.VerifToken
}

func (t TObs) coq() string {
	switch t.Kind {
	case "ok":
		return "(TOk " + coqTokens(t.Toks) + ")"
	case "syn":
		return "(TSyn " + coqZ(int64(t.Offset)) + ")"
	case "err":
		return "TErr"
	}
	return "TPanic"
}

func observeTokens(expr string) (t TObs) {
	interfere(expr)
	defer func() {
		if r := recover(); r != nil {
			t = TObs{Kind: "panic", Msg: fmt.Sprint(r)}
		}
	}()
	toks, err := jmespath.VerifTokens(expr)
	if err != nil {
		if se, ok := err.(jmespath.SyntaxError); ok {
			return TObs{Kind: "syn", Offset: se.Offset, Msg: se.Error()}
		}
		return TObs{Kind: "err", Msg: err.Error()}
	}
	return TObs{Kind: "ok", Toks: toks}
}

// deepCopy copies a JSON-like value (so that a mutation by the library is visible).
func deepCopy(v interface{}) interface{} {
	switch x := v.(type) {
	case []interface{}:
		if x == nil {
			return x
		}
		out := make([]interface{}, len(x))
		for i, e := range x {
			out[i] = deepCopy(e)
		}
		return out
	case map[string]interface{}:
		if x == nil {
			return x
		}
		out := make(map[string]interface{}, len(x))
		for k, e := range x {
			out[k] = deepCopy(e)
		}
		return out
	default:
		return v
	}
}

// isJSONData reports whether v consists only of nil, bool, finite float64,
// string, non-nil []interface{} and non-nil map[string]interface{}.
func isJSONData(v interface{}) (bool, string) {
	switch x := v.(type) {
	case nil, bool, string:
		return true, ""
	case float64:
		if x != x || x > 1.7976931348623157e308 || x < -1.7976931348623157e308 {
			return false, "non-finite number"
		}
		return true, ""
	case []interface{}:
		if x == nil {
			return false, "nil slice"
		}
		for _, e := range x {
			if ok, why := isJSONData(e); !ok {
				return false, why
			}
		}
		return true, ""
	case map[string]interface{}:
		if x == nil {
			return false, "nil map"
		}
		for _, e := range x {
			if ok, why := isJSONData(e); !ok {
				return false, why
			}
		}
		return true, ""
	}
	return false, "Go type " + reflect.TypeOf(v).String()
}

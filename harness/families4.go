package main

// C18: documents made of Go structs, pointers and typed slices, built at run
// time with reflect from a generic JSON shape, compared with their generic twin.

import (
	"encoding/json"
	"fmt"
	"reflect"
	"sort"
	"strings"
	"unicode"

	jmespath "github.com/jmespath/go-jmespath"
)

func init() { families["C18"] = famC18 }

var goKeys = []string{"a", "b", "c", "foo", "bar", "name"}

func (g *Gen) goShape(depth int) interface{} {
	if depth <= 0 || g.rng.Intn(4) == 0 {
		switch g.rng.Intn(5) {
		case 0:
			return numPool[g.rng.Intn(len(numPool))]
		case 1:
			return strPool[g.rng.Intn(len(strPool))]
		case 2:
			return g.rng.Intn(2) == 0
		case 3:
			return nil
		default:
			return "s" + fmt.Sprint(g.rng.Intn(5))
		}
	}
	switch g.rng.Intn(4) {
	case 0, 1:
		m := map[string]interface{}{}
		for i := 0; i < 1+g.rng.Intn(3); i++ {
			m[goKeys[g.rng.Intn(len(goKeys))]] = g.goShape(depth - 1)
		}
		return m
	case 2:
		n := g.rng.Intn(4)
		out := []interface{}{}
		switch g.rng.Intn(3) {
		case 0:
			for i := 0; i < n; i++ {
				out = append(out, numPool[g.rng.Intn(len(numPool))])
			}
		case 1:
			for i := 0; i < n; i++ {
				out = append(out, strPool[g.rng.Intn(len(strPool))])
			}
		default:
			keys := []string{goKeys[g.rng.Intn(3)], goKeys[3+g.rng.Intn(3)]}
			for i := 0; i < n; i++ {
				m := map[string]interface{}{}
				for _, k := range keys {
					m[k] = g.goShape(depth - 2)
				}
				if g.rng.Intn(6) == 0 {
					out = append(out, nil)
				} else {
					out = append(out, m)
				}
			}
		}
		return out
	default:
		out := []interface{}{}
		for i := 0; i < g.rng.Intn(3); i++ {
			out = append(out, g.goShape(depth-1))
		}
		return out
	}
}

func capitalize(k string) string {
	r := []rune(k)
	r[0] = unicode.ToUpper(r[0])
	return string(r)
}

// toGo converts a generic JSON value into a value made of structs, pointers
// and typed slices. usePtr: structs by pointer. The second result is the
// generic twin (nil pointers are null).
func (g *Gen) toGo(v interface{}) reflect.Value {
	switch x := v.(type) {
	case nil:
		return reflect.Zero(reflect.TypeOf((*interface{})(nil)).Elem())
	case map[string]interface{}:
		keys := make([]string, 0, len(x))
		for k := range x {
			keys = append(keys, k)
		}
		sort.Strings(keys)
		var fields []reflect.StructField
		var vals []reflect.Value
		for _, k := range keys {
			fv := g.toGo(x[k])
			ft := fv.Type()
			fields = append(fields, reflect.StructField{Name: capitalize(k), Type: ft, Tag: reflect.StructTag(`json:"` + k + `"`)})
			vals = append(vals, fv)
		}
		st := reflect.New(reflect.StructOf(fields))
		for i, fv := range vals {
			st.Elem().Field(i).Set(fv)
		}
		if g.rng.Intn(2) == 0 {
			return st // pointer to struct
		}
		return st.Elem()
	case []interface{}:
		// typed slice when all elements have one Go type
		var vals []reflect.Value
		for _, e := range x {
			vals = append(vals, g.toGo(e))
		}
		if len(vals) > 0 {
			t0 := vals[0].Type()
			same := true
			for _, v := range vals {
				if v.Type() != t0 {
					same = false
				}
			}
			if same && t0.Kind() != reflect.Interface {
				s := reflect.MakeSlice(reflect.SliceOf(t0), 0, len(vals))
				for _, v := range vals {
					s = reflect.Append(s, v)
				}
				return s
			}
		}
		out := make([]interface{}, 0, len(vals))
		for _, v := range vals {
			if v.Kind() == reflect.Interface && v.IsNil() {
				out = append(out, nil)
			} else {
				out = append(out, v.Interface())
			}
		}
		return reflect.ValueOf(out)
	default:
		return reflect.ValueOf(v)
	}
}

// nilPtrVariant: for arrays of objects, replace null elements by typed nil pointers
func (g *Gen) goDoc(shape interface{}) interface{} {
	v := g.toGo(shape)
	if v.Kind() == reflect.Interface && v.IsNil() {
		return nil
	}
	return v.Interface()
}

// a slice of pointers to one struct type with some nil pointers inside
func (g *Gen) ptrSliceDoc() (interface{}, interface{}) {
	type T struct {
		Foo float64 `json:"foo"`
		Bar string  `json:"bar"`
		Sub *T      `json:"sub"`
	}
	type G struct {
		Members []*T     `json:"members"`
		Strs    []string `json:"strs"`
		Vals    []T      `json:"vals"`
	}
	type D struct {
		Lp     []*T      `json:"lp"`
		P      *T        `json:"p"`
		Q      *T        `json:"q"`
		Strs   []string  `json:"strs"`
		Nums   []float64 `json:"nums"`
		L      []T       `json:"l"`
		Es     []string  `json:"es"`
		El     []T       `json:"el"`
		Ep     []*T      `json:"ep"`
		Groups []G       `json:"groups"`
	}
	mk := func(i int) *T { return &T{Foo: float64(i), Bar: strPool[g.rng.Intn(len(strPool))]} }
	d := D{P: mk(1), Strs: []string{"a", "b", "a"}, Nums: []float64{3, 1, 2}, L: []T{*mk(5), *mk(4)},
		Es: []string{}, El: []T{}, Ep: []*T{}}
	d.P.Sub = mk(7)
	d.Groups = []G{{Members: []*T{mk(1), nil, mk(2)}, Strs: []string{"x"}, Vals: []T{*mk(3)}}, {Members: []*T{}, Strs: []string{}, Vals: []T{}},
		{Members: []*T{nil, mk(4)}, Strs: []string{"y", "z"}, Vals: []T{*mk(5), *mk(6)}}}
	for i := 0; i < 2+g.rng.Intn(3); i++ {
		if g.rng.Intn(3) == 0 {
			d.Lp = append(d.Lp, nil)
		} else {
			d.Lp = append(d.Lp, mk(i))
		}
	}
	var generic interface{}
	b, _ := json.Marshal(d)
	json.Unmarshal(b, &generic)
	if g.rng.Intn(2) == 0 {
		return &d, generic
	}
	return d, generic
}

// structs with unexported fields and embedded structs
type fBase struct {
	Name string  `json:"name"`
	Id   float64 `json:"id"`
}
type fbase struct {
	Tag string `json:"tag"`
}
type fUnexp struct {
	_x   string
	_    int
	x    string
	y    *fBase
	日本   string
	_y   []string
	Name string `json:"name"`
}
type fEmbVal struct {
	fBase
	_x string
}
type fEmbPtr struct {
	*fBase
	Inner *fEmbPtr `json:"inner"`
}
type fEmbLower struct {
	fbase
	*fUnexp
	Id float64 `json:"id"`
}
type fAccent struct {
	Épices []string `json:"épices"`
	Øre    float64  `json:"øre"`
	Ägare  *fBase   `json:"ägare"`
	Ñu     string   `json:"ñu"`
}
type fDeep struct {
	Deep *fDeepIn   `json:"deep"`
	L    []fUnexp   `json:"l"`
	Lp   []*fEmbPtr `json:"lp"`
}
type fDeepIn struct {
	*fEmbPtr
	Deep *fDeepIn `json:"deep"`
	_x   float64
}

func (g *Gen) fieldDocs() []interface{} {
	s := func() string { return strPool[g.rng.Intn(len(strPool))] }
	u := fUnexp{_x: s(), x: s(), y: &fBase{s(), 1}, 日本: s(), _y: []string{s()}, Name: s()} // typed slices are non-nil (the property's domain)
	b := &fBase{s(), float64(g.rng.Intn(5))}
	docs := []interface{}{
		u, &u,
		fEmbVal{fBase: *b, _x: s()}, &fEmbVal{},
		fEmbPtr{}, &fEmbPtr{}, fEmbPtr{fBase: b}, &fEmbPtr{fBase: b, Inner: &fEmbPtr{}}, fEmbPtr{Inner: &fEmbPtr{fBase: b}},
		fEmbLower{}, &fEmbLower{fbase: fbase{s()}, fUnexp: &u, Id: 3}, fEmbLower{fbase: fbase{s()}},
		fDeep{L: []fUnexp{}, Lp: []*fEmbPtr{}}, &fDeep{Deep: &fDeepIn{}, L: []fUnexp{u, {}}, Lp: []*fEmbPtr{{}, nil, {fBase: b}}},
		fDeep{Deep: &fDeepIn{fEmbPtr: &fEmbPtr{}, Deep: &fDeepIn{fEmbPtr: &fEmbPtr{fBase: b}}}, L: []fUnexp{}, Lp: []*fEmbPtr{}},
		fAccent{Épices: []string{s(), s()}, Øre: 2.5, Ägare: b, Ñu: s()}, &fAccent{Épices: []string{}}, []fAccent{{Épices: []string{s()}, Ägare: b}, {Épices: []string{}}},
	}
	return docs
}

func normalise(v interface{}) (interface{}, error) {
	b, err := json.Marshal(v)
	if err != nil {
		return nil, err
	}
	var out interface{}
	err = json.Unmarshal(b, &out)
	return out, err
}

func famC18(r *Run) {
	g := &Gen{rng: r.rng, feat: Features{Proj: true, Logic: true, Paren: true, OrderFree: true}}
	gf := &Gen{rng: r.rng, feat: Features{Proj: true, Logic: true, Funcs: true, BadCalls: true, Paren: true, OrderFree: true}}
	oldKeys := keyPool
	keyPool = goKeys
	defer func() { keyPool = oldKeys }()
	for i := 0; i < r.n(1500, 25000); i++ {
		var doc, generic interface{}
		if r.rng.Intn(3) == 0 {
			doc, generic = g.ptrSliceDoc()
		} else {
			shape := g.goShape(3)
			if _, ok := shape.(map[string]interface{}); !ok {
				shape = map[string]interface{}{"a": shape, "b": g.goShape(2)}
			}
			doc = g.goDoc(shape)
			var err error
			generic, err = normalise(doc)
			if err != nil {
				continue
			}
		}
		// navigational expression: equivalence
		t := g.expr(0, 4, hAny, generic)
		text := t.text(textOpts{})
		if strings.Contains(text, "\"\"") {
			continue // the empty key has no Go field
		}
		r.mark("G-go-nav", text, generic)
		og := observeSearch(text, generic)
		od := observeSearch(text, doc)
		r.count("go:" + od.Kind)
		if hasComparator(text) && od.Kind != "panic" {
			// the property claims equivalence for navigation, boolean operators, pipes and
			// length(), not for comparators: == on a typed slice and a generic one is false
			// by Go type identity.  Such expressions only count for "no panic".
			r.count("go:comparator-not-compared")
			continue
		}
		if od.Kind == "panic" {
			r.violate("G-go-nav", text, generic, "panic on a document of Go structs / typed slices", od.Msg+describeGo(doc))
		} else if od.Kind == "val" && og.Kind == "val" {
			nd, err := normalise(od.Value)
			if err != nil || !jsonEqual(nd, og.Value) {
				b, _ := json.Marshal(nd)
				r.violate("G-go-nav", text, generic, "result on Go structs differs from the result on the equivalent generic document", "structs: "+string(b)+" generic: "+og.String()+describeGo(doc))
			}
		} else if od.Kind != og.Kind {
			r.violate("G-go-nav", text, generic, "outcome on Go structs differs from the outcome on the equivalent generic document", od.String()+" vs "+og.String()+describeGo(doc))
		}
		r.addSearch("G-go-nav", text, generic, "exact")
		r.addGo("G-go-model", text, doc, od)
		// any expression, all functions: no panic
		t2 := gf.expr(0, 4, hAny, generic)
		if r.rng.Intn(2) == 0 {
			t2 = gf.call(3, generic)
		}
		text2 := t2.text(textOpts{})
		r.mark("G-go-fun", text2, generic)
		o2 := observeSearch(text2, doc)
		if o2.Kind == "panic" {
			r.violate("G-go-fun", text2, generic, "panic on a document of Go structs / typed slices", o2.Msg+describeGo(doc))
		}
	}
	// targeted: nil pointers reached through values, pointers, typed slices and projections
	for i := 0; i < r.n(6, 40); i++ {
		doc, generic := g.ptrSliceDoc()
		for _, text := range []string{
			"lp[*].sub", "l[*].sub", "p.sub.sub", "[p.sub.sub]", "lp[].sub", "lp[?foo].sub", "p.{s: sub.sub}", "lp[*].sub || 'x'",
			"length(lp[*].sub)", "q.sub", "p.sub.sub.foo", "lp[1:].sub", "lp[*].[sub]", "lp[*].sub.foo", "(lp[*].sub)[0]", "lp[*]", "lp[]",
			"lp[?sub]", "lp[?!sub].foo", "l[?!sub].foo", "[q, p.sub.sub, lp[0]]", "{a: q, b: p.sub.sub}", "q || p.sub.sub || 'none'",
			"!q", "!p.sub.sub", "p.sub.sub && 'x'", "lp[*].sub | length(@)", "l[*].sub | [0]", "ep[*].sub", "el[*].foo", "es[0]", "length(es)",
			"p.sub.{a: sub, b: foo}", "lp[-1].sub", "lp[::-1].sub", "strs[::-1]", "nums[1:]", "l[0].sub.foo",
			"[lp, lp][]", "[lp][]", "[l, lp][]", "[lp, lp][].foo", "[lp, ep, lp][]", "[lp, lp][] | length(@)", "[lp, lp][].[foo]", "[lp, lp][] | [1]",
			"groups[*].members[]", "groups[*].members[].foo", "groups[*].members[] | length(@)", "groups[].members[]", "groups[?members].members[]",
			"groups[*].members[].{n: foo}", "length(groups[*].members[])", "groups[*].strs[]", "groups[*].vals[].bar",
		} {
			r.mark("G-go-nil", text, generic)
			og := observeSearch(text, generic)
			od := observeSearch(text, doc)
			if od.Kind == "panic" {
				r.violate("G-go-nil", text, generic, "panic on a document of Go structs / typed slices", od.Msg+describeGo(doc))
			} else if od.Kind == "val" && og.Kind == "val" {
				nd, err := normalise(od.Value)
				if err != nil || !jsonEqual(nd, og.Value) {
					b, _ := json.Marshal(nd)
					r.violate("G-go-nil", text, generic, "result on Go structs differs from the result on the equivalent generic document", "structs: "+string(b)+" generic: "+og.String()+describeGo(doc))
				}
			} else if od.Kind != og.Kind {
				r.violate("G-go-nil", text, generic, "outcome on Go structs differs from the outcome on the equivalent generic document", od.String()+" vs "+og.String()+describeGo(doc))
			}
			r.addSearch("G-go-nil", text, generic, "exact")
			r.addGo("G-go-model-nil", text, doc, od)
		}
	}
	// a nil pointer as the document itself behaves like the null document
	{
		type N struct {
			Foo float64 `json:"foo"`
			Sub *N      `json:"sub"`
			L   []*N    `json:"l"`
		}
		var np *N
		shapeDoc := map[string]interface{}{"foo": 1.0, "sub": map[string]interface{}{"foo": 2.0}, "l": []interface{}{}}
		for i := 0; i < r.n(200, 3000); i++ {
			t := g.expr(0, 3, hAny, shapeDoc)
			text := t.text(textOpts{})
			r.mark("G-go-nilroot", text, nil)
			og := observeSearch(text, nil)
			od := observeSearch(text, np)
			if od.Kind == "panic" {
				r.violate("G-go-nilroot", text, nil, "panic on a nil pointer document", od.Msg)
			} else if od.Kind == "val" && og.Kind == "val" {
				nd, err := normalise(od.Value)
				if err != nil || !jsonEqual(nd, og.Value) {
					b, _ := json.Marshal(nd)
					r.violate("G-go-nilroot", text, nil, "result on a nil pointer document differs from the result on null", "nil pointer: "+string(b)+" null: "+og.String())
				}
			} else if od.Kind != og.Kind {
				r.violate("G-go-nilroot", text, nil, "outcome on a nil pointer document differs from the outcome on null", od.String()+" vs "+og.String())
			}
			r.addSearch("G-go-nilroot", text, nil, "exact")
			r.addGo("G-go-model-nilroot", text, np, od)
		}
	}
	// struct fields the JSON form does not have or reaches through an embedded
	// struct: unexported fields (a key whose first character has no upper case
	// names them), embedded structs by value and by pointer, nil embedded pointers
	for i := 0; i < r.n(4, 30); i++ {
		for _, doc := range g.fieldDocs() {
			generic, err := normalise(doc)
			if err != nil {
				continue
			}
			for _, text := range []string{
				"_x", "_", "x", "y", "name", "id", "base", "inner", "inner.name", "p_base", "tag", "@._x", "[_x, name]", "{a: _x, b: name, c: id}",
				"_x || name", "name || _x", "l[*]._x", "l[*].name", "l[]._x", "l[?_x]", "l[?name].name", "lp[*].name", "lp[*]._x", "lp[0].name",
				"length(l[*]._x)", "l[*].[name, _x]", "deep.name", "deep.id", "deep._x", "deep.deep.name", "*", "l[*].*", "keys(@)", "values(@)",
				"to_string(@)", "not_null(_x, name)", "type(_x)", "\"日本\"", "\"_y\"", "l[*].\"日本\"",
				"\"épices\"", "\"épices\"[0]", "\"øre\"", "\"ägare\".name", "\"ñu\"", "[*].\"épices\"[]", "[?\"ägare\"].\"ägare\".id", "\"épices\" || \"ñu\"", "length(\"épices\")",
				"\"\"", "l[*].\"\"", "l[?\"\"]", "[name, \"\"]", "\"\" || name", "deep.\"\"", "lp[0].\"\"", "lp[*].\"\"", "{a: \"\"}", "inner.\"\"", "@.\"\"",
				"NAME", "nAME", "naMe", "iD", "ID", "l[*].NAME", "deep.NAME", "l[?NAME]", "lp[*].nAME", "INNER.name", "inner.NAME", "dEEP.name", "[name, NAME]", "NAME || name", "l[*].nAme",
			} {
				r.mark("G-go-fields", text, generic)
				og := observeSearch(text, generic)
				od := observeSearch(text, doc)
				r.count("gofields:" + od.Kind)
				if od.Kind == "panic" {
					r.violate("G-go-fields", text, generic, "panic on a document of Go structs / typed slices", od.Msg+describeGo(doc))
					continue
				}
				if hasComparator(text) || strings.Contains(text, "*") || strings.Contains(text, "keys(") || strings.Contains(text, "values(") || strings.Contains(text, "to_string(") {
					continue // no panic only: the object wildcard and these functions are not part of the equivalence claim
				}
				if od.Kind == "val" && og.Kind == "val" {
					nd, err := normalise(od.Value)
					if err != nil || !jsonEqual(nd, og.Value) {
						b, _ := json.Marshal(nd)
						r.violate("G-go-fields", text, generic, "result on Go structs differs from the result on the equivalent generic document", "structs: "+string(b)+" generic: "+og.String()+describeGo(doc))
					}
				} else if od.Kind != og.Kind {
					r.violate("G-go-fields", text, generic, "outcome on Go structs differs from the outcome on the equivalent generic document", od.String()+" vs "+og.String()+describeGo(doc))
				}
			}
		}
	}
	// every function applied to each kind of typed slice / struct / pointer
	doc, generic := g.ptrSliceDoc()
	fields := []string{"strs", "nums", "l", "lp", "p", "q", "p.sub", "lp[0]", "l[0]", "es", "el", "ep", "l[5:]", "strs[9:]"}
	for _, s := range fsigs {
		for _, f := range fields {
			for _, e := range []string{
				s.name + "(" + f + ")", s.name + "(" + f + ", " + f + ")", s.name + "(" + f + ", &foo)", s.name + "(&foo, " + f + ")",
				s.name + "(" + f + ", 'a')", s.name + "('a', " + f + ")", s.name + "(" + f + ", `1`)",
			} {
				r.mark("fun-matrix", e, generic)
				o := observeSearch(e, doc)
				r.count("gofun:" + o.Kind)
				if o.Kind == "panic" {
					r.violate("fun-matrix", e, generic, "panic on a document of Go structs / typed slices", o.Msg)
				}
			}
		}
	}
	famSameNameTypes(r)
	famGoNumbers(r)
	famTypedSliceErrors(r)
	famOneShotStructs(r)
	famZeroStructs(r)
	for n := 0; n <= 4; n++ {
		arr := make([]interface{}, n)
		for i := range arr {
			arr[i] = float64(i)
		}
		for a := -n - 1; a <= n+1; a++ {
			for b := -n - 1; b <= n+1; b++ {
				for _, c := range []string{"", ":1", ":-1", ":2", ":-2", ":3"} {
					r.typedSliceTwins("typed-slice-window", fmt.Sprintf("[%d:%d%s]", a, b, c), arr)
				}
			}
		}
	}
}

// goModelable: the expression stays inside the fragment Model/GoVal.v covers
// (no comparator, no object wildcard, no function but length, ASCII lower-case
// identifiers) — other expressions are compared on the Go side only.
func goModelable(expr string) bool {
	toks, err := jmespath.VerifTokens(expr)
	if err != nil {
		return false
	}
	for i, t := range toks {
		switch t.TypeName {
		case "tLT", "tLTE", "tGT", "tGTE", "tEQ", "tNE", "tExpref":
			return false
		case "tStar":
			prevL := i > 0 && toks[i-1].TypeName == "tLbracket"
			nextR := i+1 < len(toks) && toks[i+1].TypeName == "tRbracket"
			if !(prevL && nextR) {
				return false
			}
		case "tLparen":
			if i > 0 && toks[i-1].TypeName == "tUnquotedIdentifier" && toks[i-1].Value != "length" {
				return false
			}
		case "tUnquotedIdentifier", "tQuotedIdentifier":
			v := t.Value
			if v == "" || v[0] < 'a' || v[0] > 'z' {
				if !(i+1 < len(toks) && toks[i+1].TypeName == "tLparen") {
					return false
				}
			}
		}
	}
	return true
}

// coqGoVal renders a Go value made of structs, pointers to structs, typed
// slices, generic slices/maps and scalars as a gval term; ok=false for
// anything else.
func coqGoVal(v reflect.Value) (string, bool) {
	if !v.IsValid() {
		return "gN", true
	}
	switch v.Kind() {
	case reflect.Interface:
		if v.IsNil() {
			return "gN", true
		}
		return coqGoVal(v.Elem())
	case reflect.Bool:
		return "(gB " + coqBool(v.Bool()) + ")", true
	case reflect.Float64:
		f := coqFloat(v.Float())
		if !strings.HasPrefix(f, "(F ") {
			return "", false
		}
		return "(gF " + f[3:], true
	case reflect.String:
		return "(gS " + coqBytes(v.String()) + ")", true
	case reflect.Ptr:
		if v.IsNil() {
			return "(gP None)", true
		}
		if v.Elem().Kind() != reflect.Struct {
			return "", false
		}
		fs, ok := coqGoFields(v.Elem())
		if !ok {
			return "", false
		}
		return "(gP (Some " + fs + "))", true
	case reflect.Struct:
		fs, ok := coqGoFields(v)
		if !ok {
			return "", false
		}
		return "(gT " + fs + ")", true
	case reflect.Slice:
		if v.IsNil() {
			return "", false
		}
		parts := make([]string, 0, v.Len())
		for i := 0; i < v.Len(); i++ {
			s, ok := coqGoVal(v.Index(i))
			if !ok {
				return "", false
			}
			parts = append(parts, s)
		}
		c := "gL"
		if v.Type().Elem().Kind() == reflect.Interface {
			c = "gA"
		}
		return "(" + c + " [" + strings.Join(parts, "; ") + "])", true
	case reflect.Map:
		if v.IsNil() || v.Type().Key().Kind() != reflect.String {
			return "", false
		}
		keys := make([]string, 0, v.Len())
		for _, k := range v.MapKeys() {
			keys = append(keys, k.String())
		}
		sort.Strings(keys)
		parts := make([]string, 0, len(keys))
		for _, k := range keys {
			s, ok := coqGoVal(v.MapIndex(reflect.ValueOf(k)))
			if !ok {
				return "", false
			}
			parts = append(parts, "gkv "+coqBytes(k)+" "+s)
		}
		return "(gO [" + strings.Join(parts, "; ") + "])", true
	}
	return "", false
}

// fields in declaration order, each with the JSON key of its tag; the Go name
// must be that key with its first letter upper-cased (what the model assumes)
func coqGoFields(v reflect.Value) (string, bool) {
	t := v.Type()
	parts := make([]string, 0, t.NumField())
	for i := 0; i < t.NumField(); i++ {
		f := t.Field(i)
		key := f.Tag.Get("json")
		if key == "" || f.PkgPath != "" || capitalize(key) != f.Name {
			return "", false
		}
		s, ok := coqGoVal(v.Field(i))
		if !ok {
			return "", false
		}
		parts = append(parts, "gkv "+coqBytes(key)+" "+s)
	}
	return "[" + strings.Join(parts, "; ") + "]", true
}

// addGo records Search(expr, goDoc) for the model of the reflection paths.
func (r *Run) addGo(family, expr string, doc interface{}, od Obs) {
	if !goModelable(expr) {
		r.count("go-model:skipped-fragment")
		return
	}
	term, ok := coqGoVal(reflect.ValueOf(doc))
	if !ok {
		r.count("go-model:skipped-value")
		return
	}
	o := od
	if od.Kind == "val" {
		nd, err := normalise(od.Value)
		if err != nil {
			r.count("go-model:skipped-result")
			return
		}
		o = Obs{Kind: "val", Value: nd}
	}
	c := Case{ID: len(r.cases), Family: family, Kind: "go", Expr: expr, GoDoc: term, Go: o.String(), goObs: o}
	c.Prelude = takePrelude()
	r.cases = append(r.cases, c)
	r.count("go-model:cases")
}

func hasComparator(expr string) bool {
	toks, err := jmespath.VerifTokens(expr)
	if err != nil {
		return false
	}
	for _, t := range toks {
		switch t.TypeName {
		case "tLT", "tLTE", "tGT", "tGTE", "tEQ", "tNE":
			return true
		}
	}
	return false
}

func describeGo(doc interface{}) string {
	return fmt.Sprintf(" [Go document: %T]", doc)
}

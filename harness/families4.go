package main

// C18: documents made of Go structs, pointers and typed slices, built at run
// time with reflect from a generic JSON shape, compared with their generic twin.

import (
	"encoding/json"
	"fmt"
	"reflect"
	"sort"
	"strings"
	"unicode"
)

func init() { families["C18"] = famC18 }

var goKeys = []string{"a", "b", "c", "foo", "bar", "name"}

func (g *Gen) goShape(depth int) interface{} {
	if depth <= 0 || g.rng.Intn(4) == 0 {
		switch g.rng.Intn(5) {
		case 0:
			return numPool[g.rng.Intn(len(numPool))]
		case 1:
			return strPool[g.rng.Intn(len(strPool))]
		case 2:
			return g.rng.Intn(2) == 0
		case 3:
			return nil
		default:
			return "s" + fmt.Sprint(g.rng.Intn(5))
		}
	}
	switch g.rng.Intn(4) {
	case 0, 1:
		m := map[string]interface{}{}
		for i := 0; i < 1+g.rng.Intn(3); i++ {
			m[goKeys[g.rng.Intn(len(goKeys))]] = g.goShape(depth - 1)
		}
		return m
	case 2:
		n := g.rng.Intn(4)
		out := []interface{}{}
		switch g.rng.Intn(3) {
		case 0:
			for i := 0; i < n; i++ {
				out = append(out, numPool[g.rng.Intn(len(numPool))])
			}
		case 1:
			for i := 0; i < n; i++ {
				out = append(out, strPool[g.rng.Intn(len(strPool))])
			}
		default:
			keys := []string{goKeys[g.rng.Intn(3)], goKeys[3+g.rng.Intn(3)]}
			for i := 0; i < n; i++ {
				m := map[string]interface{}{}
				for _, k := range keys {
					m[k] = g.goShape(depth - 2)
				}
				if g.rng.Intn(6) == 0 {
					out = append(out, nil)
				} else {
					out = append(out, m)
				}
			}
		}
		return out
	default:
		out := []interface{}{}
		for i := 0; i < g.rng.Intn(3); i++ {
			out = append(out, g.goShape(depth-1))
		}
		return out
	}
}

func capitalize(k string) string {
	r := []rune(k)
	r[0] = unicode.ToUpper(r[0])
	return string(r)
}

// toGo converts a generic JSON value into a value made of structs, pointers
// and typed slices. usePtr: structs by pointer. The second result is the
// generic twin (nil pointers are null).
func (g *Gen) toGo(v interface{}) reflect.Value {
	switch x := v.(type) {
	case nil:
		return reflect.Zero(reflect.TypeOf((*interface{})(nil)).Elem())
	case map[string]interface{}:
		keys := make([]string, 0, len(x))
		for k := range x {
			keys = append(keys, k)
		}
		sort.Strings(keys)
		var fields []reflect.StructField
		var vals []reflect.Value
		for _, k := range keys {
			fv := g.toGo(x[k])
			ft := fv.Type()
			fields = append(fields, reflect.StructField{Name: capitalize(k), Type: ft, Tag: reflect.StructTag(`json:"` + k + `"`)})
			vals = append(vals, fv)
		}
		st := reflect.New(reflect.StructOf(fields))
		for i, fv := range vals {
			st.Elem().Field(i).Set(fv)
		}
		if g.rng.Intn(2) == 0 {
			return st // pointer to struct
		}
		return st.Elem()
	case []interface{}:
		// typed slice when all elements have one Go type
		var vals []reflect.Value
		for _, e := range x {
			vals = append(vals, g.toGo(e))
		}
		if len(vals) > 0 {
			t0 := vals[0].Type()
			same := true
			for _, v := range vals {
				if v.Type() != t0 {
					same = false
				}
			}
			if same && t0.Kind() != reflect.Interface {
				s := reflect.MakeSlice(reflect.SliceOf(t0), 0, len(vals))
				for _, v := range vals {
					s = reflect.Append(s, v)
				}
				return s
			}
		}
		out := make([]interface{}, 0, len(vals))
		for _, v := range vals {
			if v.Kind() == reflect.Interface && v.IsNil() {
				out = append(out, nil)
			} else {
				out = append(out, v.Interface())
			}
		}
		return reflect.ValueOf(out)
	default:
		return reflect.ValueOf(v)
	}
}

// nilPtrVariant: for arrays of objects, replace null elements by typed nil pointers
func (g *Gen) goDoc(shape interface{}) interface{} {
	v := g.toGo(shape)
	if v.Kind() == reflect.Interface && v.IsNil() {
		return nil
	}
	return v.Interface()
}

// a slice of pointers to one struct type with some nil pointers inside
func (g *Gen) ptrSliceDoc() (interface{}, interface{}) {
	type T struct {
		Foo float64 `json:"foo"`
		Bar string  `json:"bar"`
		Sub *T      `json:"sub"`
	}
	type D struct {
		Lp   []*T      `json:"lp"`
		P    *T        `json:"p"`
		Q    *T        `json:"q"`
		Strs []string  `json:"strs"`
		Nums []float64 `json:"nums"`
		L    []T       `json:"l"`
	}
	mk := func(i int) *T { return &T{Foo: float64(i), Bar: strPool[g.rng.Intn(len(strPool))]} }
	d := D{P: mk(1), Strs: []string{"a", "b", "a"}, Nums: []float64{3, 1, 2}, L: []T{*mk(5), *mk(4)}}
	d.P.Sub = mk(7)
	for i := 0; i < 2+g.rng.Intn(3); i++ {
		if g.rng.Intn(3) == 0 {
			d.Lp = append(d.Lp, nil)
		} else {
			d.Lp = append(d.Lp, mk(i))
		}
	}
	var generic interface{}
	b, _ := json.Marshal(d)
	json.Unmarshal(b, &generic)
	if g.rng.Intn(2) == 0 {
		return &d, generic
	}
	return d, generic
}

func normalise(v interface{}) (interface{}, error) {
	b, err := json.Marshal(v)
	if err != nil {
		return nil, err
	}
	var out interface{}
	err = json.Unmarshal(b, &out)
	return out, err
}

func famC18(r *Run) {
	g := &Gen{rng: r.rng, feat: Features{Proj: true, Logic: true, Paren: true, OrderFree: true}}
	gf := &Gen{rng: r.rng, feat: Features{Proj: true, Logic: true, Funcs: true, BadCalls: true, Paren: true, OrderFree: true}}
	oldKeys := keyPool
	keyPool = goKeys
	defer func() { keyPool = oldKeys }()
	for i := 0; i < r.n(1500, 25000); i++ {
		var doc, generic interface{}
		if r.rng.Intn(3) == 0 {
			doc, generic = g.ptrSliceDoc()
		} else {
			shape := g.goShape(3)
			if _, ok := shape.(map[string]interface{}); !ok {
				shape = map[string]interface{}{"a": shape, "b": g.goShape(2)}
			}
			doc = g.goDoc(shape)
			var err error
			generic, err = normalise(doc)
			if err != nil {
				continue
			}
		}
		// navigational expression: equivalence
		t := g.expr(0, 4, hAny, generic)
		text := t.text(textOpts{})
		if strings.Contains(text, "\"\"") {
			continue // the empty key has no Go field
		}
		r.mark("G-go-nav", text, generic)
		og := observeSearch(text, generic)
		od := observeSearch(text, doc)
		r.count("go:" + od.Kind)
		if od.Kind == "panic" {
			r.violate("G-go-nav", text, generic, "panic on a document of Go structs / typed slices", od.Msg+describeGo(doc))
		} else if od.Kind == "val" && og.Kind == "val" {
			nd, err := normalise(od.Value)
			if err != nil || !jsonEqual(nd, og.Value) {
				b, _ := json.Marshal(nd)
				r.violate("G-go-nav", text, generic, "result on Go structs differs from the result on the equivalent generic document", "structs: "+string(b)+" generic: "+og.String()+describeGo(doc))
			}
		} else if od.Kind != og.Kind {
			r.violate("G-go-nav", text, generic, "outcome on Go structs differs from the outcome on the equivalent generic document", od.String()+" vs "+og.String()+describeGo(doc))
		}
		r.addSearch("G-go-nav", text, generic, "exact")
		// any expression, all functions: no panic
		t2 := gf.expr(0, 4, hAny, generic)
		if r.rng.Intn(2) == 0 {
			t2 = gf.call(3, generic)
		}
		text2 := t2.text(textOpts{})
		r.mark("G-go-fun", text2, generic)
		o2 := observeSearch(text2, doc)
		if o2.Kind == "panic" {
			r.violate("G-go-fun", text2, generic, "panic on a document of Go structs / typed slices", o2.Msg+describeGo(doc))
		}
	}
	// every function applied to each kind of typed slice / struct / pointer
	doc, generic := g.ptrSliceDoc()
	fields := []string{"strs", "nums", "l", "lp", "p", "q", "p.sub", "lp[0]", "l[0]"}
	for _, s := range fsigs {
		for _, f := range fields {
			for _, e := range []string{
				s.name + "(" + f + ")", s.name + "(" + f + ", " + f + ")", s.name + "(" + f + ", &foo)", s.name + "(&foo, " + f + ")",
				s.name + "(" + f + ", 'a')", s.name + "('a', " + f + ")", s.name + "(" + f + ", `1`)",
			} {
				r.mark("fun-matrix", e, generic)
				o := observeSearch(e, doc)
				r.count("gofun:" + o.Kind)
				if o.Kind == "panic" {
					r.violate("fun-matrix", e, generic, "panic on a document of Go structs / typed slices", o.Msg)
				}
			}
		}
	}
}

func describeGo(doc interface{}) string {
	return fmt.Sprintf(" [Go document: %T]", doc)
}

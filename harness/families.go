package main

// Per-property case families.

import (
	"encoding/json"
	"fmt"
	"io/ioutil"
	"os"
	"path/filepath"
	"sort"
	"strings"

	jmespath "github.com/jmespath/go-jmespath"
)

var repoDir = "/repo"

var families = map[string]func(*Run){
	"C01": famC01, "C02": famC02, "C03": famC03, "C04": famC04, "C05": famC05, "C06": famC06,
	"C07": famC07, "C08": famC08, "C09": famC09, "C10": famC10, "C11": famC11,
	"C16": famC16, "C17": famC17,
}

func (r *Run) n(quick, thorough int) int {
	if r.tier == "thorough" {
		return thorough
	}
	return quick
}

// ---- corpus ----

type corpusCase struct {
	File  string
	Expr  string
	Given interface{}
	IsErr bool
}

func loadCompliance() []corpusCase {
	var out []corpusCase
	files, _ := filepath.Glob(filepath.Join(repoDir, "compliance", "*.json"))
	sort.Strings(files)
	for _, f := range files {
		data, err := ioutil.ReadFile(f)
		if err != nil {
			continue
		}
		var suites []struct {
			Given interface{}
			Cases []struct {
				Expression string
				Error      string
			}
		}
		if json.Unmarshal(data, &suites) != nil {
			continue
		}
		for _, s := range suites {
			for _, c := range s.Cases {
				out = append(out, corpusCase{filepath.Base(f), c.Expression, s.Given, c.Error != ""})
			}
		}
	}
	return out
}

func loadFuzzCorpus() []string {
	var out []string
	files, _ := filepath.Glob(filepath.Join(repoDir, "fuzz", "testdata", "*"))
	sort.Strings(files)
	for _, f := range files {
		data, err := ioutil.ReadFile(f)
		if err == nil {
			out = append(out, string(data))
		}
	}
	return out
}

func loadVerifCorpus(name string) []string {
	data, err := ioutil.ReadFile(filepath.Join(verifDir(), "corpus", name))
	if err != nil {
		return nil
	}
	var out []string
	for _, l := range strings.Split(string(data), "\n") {
		if l != "" && !strings.HasPrefix(l, "#") {
			var s string
			if json.Unmarshal([]byte(l), &s) == nil {
				out = append(out, s)
			}
		}
	}
	return out
}

func verifDir() string {
	if d := os.Getenv("VERIF_DIR"); d != "" {
		return d
	}
	return "/verif"
}

// features of an expression, from its tokens
type exprFeatures struct {
	proj, logic, funcs, orderExposing, lexOK bool
}

func featuresOf(expr string) exprFeatures {
	var f exprFeatures
	defer func() { recover() }()
	toks, err := jmespath.VerifTokens(expr)
	if err != nil {
		return f
	}
	f.lexOK = true
	for i, t := range toks {
		switch t.TypeName {
		case "tStar":
			f.proj = true
			prevL := i > 0 && toks[i-1].TypeName == "tLbracket"
			nextR := i+1 < len(toks) && toks[i+1].TypeName == "tRbracket"
			if !(prevL && nextR) {
				f.orderExposing = true
			}
		case "tFilter", "tFlatten", "tColon":
			f.proj = true
		case "tOr", "tAnd", "tNot", "tLT", "tLTE", "tGT", "tGTE", "tEQ", "tNE":
			f.logic = true
		case "tLparen":
			if i > 0 && toks[i-1].TypeName == "tUnquotedIdentifier" {
				f.funcs = true
				if toks[i-1].Value == "keys" || toks[i-1].Value == "values" {
					f.orderExposing = true
				}
			}
		}
	}
	return f
}

func hasMultiMemberObject(v interface{}) bool {
	switch x := v.(type) {
	case map[string]interface{}:
		if len(x) > 1 {
			return true
		}
		for _, e := range x {
			if hasMultiMemberObject(e) {
				return true
			}
		}
	case []interface{}:
		for _, e := range x {
			if hasMultiMemberObject(e) {
				return true
			}
		}
	}
	return false
}

// modeFor: exact comparison, unless the expression exposes the unspecified
// iteration order of an object (object wildcard, keys, values) and an object
// with more than one member is around (in the document, a literal or a
// multi-select hash): then only value-versus-error is compared, because what
// consumes the exposed order (an index, a comparison, join, to_string, first
// extremal element ...) can legitimately differ between two iterations.
func modeFor(expr string, doc interface{}) string {
	f := featuresOf(expr)
	if !f.orderExposing {
		return "exact"
	}
	if hasMultiMemberObject(doc) || exprHasMultiMemberObject(expr) {
		return "kind"
	}
	return "exact"
}

func exprHasMultiMemberObject(expr string) bool {
	defer func() { recover() }()
	toks, err := jmespath.VerifTokens(expr)
	if err != nil {
		return true
	}
	for i, t := range toks {
		switch t.TypeName {
		case "tJSONLiteral":
			var v interface{}
			if json.Unmarshal([]byte(t.Value), &v) != nil || hasMultiMemberObject(v) {
				return true
			}
		case "tLbrace":
			depth := 0
			for _, u := range toks[i:] {
				if u.TypeName == "tLbrace" || u.TypeName == "tLbracket" || u.TypeName == "tLparen" || u.TypeName == "tFilter" {
					depth++
				}
				if u.TypeName == "tRbrace" || u.TypeName == "tRbracket" || u.TypeName == "tRparen" {
					depth--
					if depth == 0 {
						break
					}
				}
				if u.TypeName == "tComma" && depth == 1 {
					return true
				}
			}
		case "tUnquotedIdentifier":
			if t.Value == "merge" {
				return true
			}
		}
	}
	return false
}

func (r *Run) corpusSearch(family string, want func(exprFeatures) bool) {
	for _, c := range loadCompliance() {
		f := featuresOf(c.Expr)
		if !want(f) {
			continue
		}
		r.addSearch(family+":"+c.File, c.Expr, c.Given, modeFor(c.Expr, c.Given))
	}
}

// treeCases generates n (tree, text, document) cases with the given features.
func (r *Run) treeCases(family string, n int, feat Features, depth int) {
	g := &Gen{rng: r.rng, feat: feat}
	for i := 0; i < n; i++ {
		// where object iteration order can be exposed, half of the documents have only
		// one-member objects, so that the comparison stays exact
		g.thin = feat.Proj && !feat.OrderFree && i%2 == 0
		doc := g.rootDoc()
		t := g.expr(0, depth, hAny, doc)
		text := t.text(textOpts{rng: r.rng, spaces: r.rng.Intn(3) == 0})
		r.addTree(family, t, text, doc, modeFor(text, doc))
		r.countTree(t)
	}
}

func (r *Run) countTree(t *Ex) {
	var walk func(e *Ex)
	walk = func(e *Ex) {
		if e == nil {
			return
		}
		r.count("node:" + e.K)
		walk(e.E)
		walk(e.L)
		walk(e.Rt)
		walk(e.Cond)
		walk(e.R.E)
		for _, x := range e.Es {
			walk(x)
		}
		for _, kv := range e.KVs {
			walk(kv.E)
		}
		for _, a := range e.Args {
			walk(a.E)
		}
	}
	walk(t)
}

// ---- C01: core fragment ----
func famC01(r *Run) {
	r.corpusSearch("compliance", func(f exprFeatures) bool { return f.lexOK && !f.proj && !f.logic && !f.funcs })
	r.treeCases("G-expr-core", r.n(1500, 20000), Features{Paren: true, Hostile: true}, 4)
	// raw strings with several quotes and backslashes, alone and inside core expressions
	alpha := []string{"a", "'", "\\", " ", "\u00e9", "b'", "''"}
	for i := 0; i < r.n(150, 2000); i++ {
		var sb strings.Builder
		for k := r.rng.Intn(7); k > 0; k-- {
			sb.WriteString(alpha[r.rng.Intn(len(alpha))])
		}
		str := sb.String()
		if !rawSpellable(str) {
			continue
		}
		raw := &Ex{K: "raw", Name: str}
		var t *Ex
		switch r.rng.Intn(3) {
		case 0:
			t = raw
		case 1:
			t = &Ex{K: "pipe", L: &Ex{K: "ident", Name: "foo"}, Rt: &Ex{K: "mslist", Es: []*Ex{raw, &Ex{K: "ident", Name: "bar"}}}}
		default:
			t = &Ex{K: "mshash", KVs: []KV{{false, "k", raw}, {false, "l", &Ex{K: "raw", Name: "x'" + str}}}}
		}
		doc := map[string]interface{}{"foo": map[string]interface{}{"bar": 1.0}}
		text := t.text(textOpts{})
		r.addTree("raw-strings", t, text, doc, "exact")
	}
	famNumberSpellings(r)
	famNearTwins(r)
	famLongChains(r)
	famPipeJSONStrings(r)
	famCaseTwins(r)
	famMultiRawTargeted(r)
}

// ---- C02: projections ----
func famC02(r *Run) {
	r.corpusSearch("compliance", func(f exprFeatures) bool { return f.lexOK && f.proj && !f.funcs })
	r.treeCases("G-expr-proj", r.n(1500, 20000), Features{Proj: true, Paren: true, Logic: true}, 4)
	r.treeCases("G-expr-proj-order-free", r.n(500, 8000), Features{Proj: true, Paren: true, Logic: true, OrderFree: true, Funcs: true}, 4)
	r.treeCases("G-expr-proj-funcs", r.n(700, 10000), Features{Proj: true, Paren: true, Logic: true, Funcs: true}, 4)
	// right-hand sides that turn null into something: every element counts
	g := &Gen{rng: r.rng, feat: Features{Proj: true}, thin: true}
	for i := 0; i < r.n(150, 2000); i++ {
		doc := g.rootDoc()
		rhs := []*Ex{
			{K: "call", Name: "type", Args: []Arg{{false, &Ex{K: "current"}}}},
			{K: "call", Name: "to_array", Args: []Arg{{false, &Ex{K: "current"}}}},
			{K: "call", Name: "not_null", Args: []Arg{{false, &Ex{K: "current"}}, {false, &Ex{K: "raw", Name: "was null"}}}},
			{K: "call", Name: "to_string", Args: []Arg{{false, &Ex{K: "current"}}}},
		}[r.rng.Intn(4)]
		var l *Ex
		if r.rng.Intn(2) == 0 {
			l = g.identFor(doc)
		}
		var t *Ex
		switch r.rng.Intn(4) {
		case 0:
			t = &Ex{K: "valproj", L: l, R: Rhs{1, rhs}}
		case 1:
			t = &Ex{K: "listproj", L: l, R: Rhs{1, rhs}}
		case 2:
			t = &Ex{K: "flatten", L: l, R: Rhs{1, rhs}}
		default:
			t = &Ex{K: "filter", L: l, Cond: &Ex{K: "cmp", Op: "==", L: &Ex{K: "current"}, Rt: &Ex{K: "current"}}, R: Rhs{1, rhs}}
		}
		text := t.text(textOpts{})
		r.addTree("null-sensitive-rhs", t, text, doc, modeFor(text, doc))
	}
	famFunctionEdges(r)
	famObjectEquality(r)
	famSliceNonArrays(r)
	famFilterMixed(r)
	famNullHoles(r)
}

// ---- C03: precedence ----
func famC03(r *Run) {
	g := &Gen{rng: r.rng, feat: Features{Proj: true, Logic: true, Funcs: true, Paren: false}}
	n := r.n(1200, 15000)
	for i := 0; i < n; i++ {
		if i == n/2 {
			g.feat.Paren = true
		}
		doc := g.rootDoc()
		t := g.expr(0, 4, hAny, doc)
		text := t.text(textOpts{})
		c := r.addTree("G-expr-prec", t, text, doc, modeFor(text, doc))
		r.countTree(t)
		if c == nil {
			continue
		}
		// the same tree fully parenthesised and with random whitespace must
		// give the same AST and the same result
		full := fullParen(t).text(textOpts{})
		spaced := t.text(textOpts{rng: r.rng, spaces: true})
		a0 := c.goAst
		for _, v := range []struct{ what, text string }{{"fully parenthesised", full}, {"with whitespace", spaced}} {
			a := observeCompile(v.text)
			if a.Kind != a0.Kind || (a.Kind == "ok" && !sameNode(a.Node, a0.Node)) {
				r.violate("G-expr-prec", text, doc, "AST differs from the "+v.what+" form", v.text)
				continue
			}
			if a.Kind == "ok" && !featuresOf(text).orderExposing {
				o := observeSearch(v.text, deepCopy(doc))
				if o.String() != c.goObs.String() {
					r.violate("G-expr-prec", text, doc, "result differs from the "+v.what+" form", v.text+" => "+o.String())
				}
			}
		}
	}
	r.corpusAst("compliance", false)
	// projection scope: whatever follows a multi-select, an index or a filter inside the
	// right-hand side of a projection still belongs to that right-hand side
	{
		var d interface{}
		json.Unmarshal([]byte(`{"xs":[{"a":{"n":1},"b":[1,2]},{"a":{"n":2},"b":[3]}],"o":{"p":{"a":{"n":5},"b":[7]}}}`), &d)
		id := func(n string) *Ex { return &Ex{K: "ident", Name: n} }
		hash := func() *Ex {
			return &Ex{K: "mshash", KVs: []KV{{false, "k", &Ex{K: "sub", L: id("a"), Rt: id("n")}}, {false, "l", id("b")}}}
		}
		list := func() *Ex { return &Ex{K: "mslist", Es: []*Ex{&Ex{K: "sub", L: id("a"), Rt: id("n")}, id("b")}} }
		zero := int64(0)
		conts := []func(h *Ex) *Ex{
			func(h *Ex) *Ex { return &Ex{K: "sub", L: h, Rt: id("k")} },
			func(h *Ex) *Ex { return &Ex{K: "index", L: h, I: 0} },
			func(h *Ex) *Ex { return &Ex{K: "sub", L: &Ex{K: "sub", L: h, Rt: id("l")}, Rt: id("x")} },
			func(h *Ex) *Ex { return &Ex{K: "slice", L: h, A: &zero, R: Rhs{0, nil}} },
			func(h *Ex) *Ex { return &Ex{K: "listproj", L: h, R: Rhs{0, nil}} },
			func(h *Ex) *Ex { return &Ex{K: "flatten", L: h, R: Rhs{0, nil}} },
			func(h *Ex) *Ex { return &Ex{K: "filter", L: h, Cond: &Ex{K: "current"}, R: Rhs{0, nil}} },
		}
		projs := []func(rhs *Ex) *Ex{
			func(rhs *Ex) *Ex { return &Ex{K: "listproj", L: id("xs"), R: Rhs{1, rhs}} },
			func(rhs *Ex) *Ex { return &Ex{K: "flatten", L: id("xs"), R: Rhs{1, rhs}} },
			func(rhs *Ex) *Ex { return &Ex{K: "filter", L: id("xs"), Cond: id("a"), R: Rhs{1, rhs}} },
			func(rhs *Ex) *Ex { return &Ex{K: "valproj", L: id("o"), R: Rhs{1, rhs}} },
			func(rhs *Ex) *Ex { return &Ex{K: "slice", L: id("xs"), A: &zero, R: Rhs{1, rhs}} },
		}
		for _, pj := range projs {
			for _, ct := range conts {
				for _, h := range []*Ex{hash(), list()} {
					t := pj(ct(h))
					text := t.text(textOpts{})
					r.addTree("projection-scope", t, text, d, modeFor(text, d))
				}
			}
		}
	}
	famSingleWs(r)
	famLongChains(r)
}

func sameNode(a, b jmespath.VerifNode) bool {
	x, ok1 := coqNode(a)
	y, ok2 := coqNode(b)
	return ok1 && ok2 && x == y
}

func (r *Run) corpusAst(family string, cmpOff bool) {
	seen := map[string]bool{}
	for _, c := range loadCompliance() {
		if !seen[c.Expr] {
			seen[c.Expr] = true
			r.addAst(family+":"+c.File, c.Expr, cmpOff)
		}
	}
}

// ---- C04: accepted language ----
var tokenAlphabet = []string{
	"a", "b", "\"q\"", "'r'", "`1`", "`\"s\"`", "@", "*", ".", ",", ":", "(", ")", "[", "]", "{", "}",
	"[]", "[?", "|", "||", "&&", "!", "&", "==", "<", ">=", "!=", "0", "-1", "2", "abs", "sort_by",
}

func (r *Run) tokenStrings(family string, maxLen int, sample int, cmpOff bool) {
	// exhaustive up to length 3 (quick) and sampled beyond
	var rec func(prefix []string, depth int)
	rec = func(prefix []string, depth int) {
		if len(prefix) > 0 {
			r.addAst(family, joinToks(prefix, textOpts{}), cmpOff)
		}
		if depth == 0 {
			return
		}
		for _, t := range tokenAlphabet {
			rec(append(append([]string{}, prefix...), t), depth-1)
		}
	}
	rec(nil, maxLen)
	for i := 0; i < sample; i++ {
		n := maxLen + 1 + r.rng.Intn(6)
		toks := make([]string, n)
		for j := range toks {
			toks[j] = tokenAlphabet[r.rng.Intn(len(tokenAlphabet))]
		}
		r.addAst(family+"-sampled", joinToks(toks, textOpts{rng: r.rng, spaces: r.rng.Intn(2) == 0}), cmpOff)
	}
}

func famC04(r *Run) {
	for _, e := range loadVerifCorpus("syntax.jsonl") {
		r.addAst("corpus", e, false)
	}
	// expectations written from the JMESPath grammar (not from parser.go)
	var exp struct{ Reject, Accept []string }
	if data, err := ioutil.ReadFile(filepath.Join(verifDir(), "corpus", "grammar_expectations.json")); err == nil {
		json.Unmarshal(data, &exp)
	}
	for _, e := range exp.Reject {
		if a := observeCompile(e); a.Kind == "ok" {
			r.violate("grammar-expectations", e, nil, "an ungrammatical expression is accepted by Compile", "")
		} else if a.Kind == "panic" {
			r.violate("grammar-expectations", e, nil, "Compile panics", a.Msg)
		}
	}
	for _, e := range exp.Accept {
		if a := observeCompile(e); a.Kind != "ok" {
			r.violate("grammar-expectations", e, nil, "a grammatical expression is rejected by Compile", a.Kind+" "+a.Msg)
		}
	}
	r.corpusAst("compliance", false)
	for _, e := range loadFuzzCorpus() {
		r.addAst("fuzz-testdata", e, false)
	}
	r.tokenStrings("G-tok", r.n(2, 3), r.n(1500, 30000), false)
	// near-misses: valid expressions with one token deleted, duplicated or swapped
	g := &Gen{rng: r.rng, feat: Features{Proj: true, Logic: true, Funcs: true, Paren: true}}
	for i := 0; i < r.n(800, 10000); i++ {
		t := g.expr(0, 4, hAny, g.rootDoc())
		toks := t.toks(textOpts{})
		if len(toks) == 0 {
			continue
		}
		k := r.rng.Intn(len(toks))
		var mut []string
		switch r.rng.Intn(4) {
		case 0:
			mut = append(append([]string{}, toks[:k]...), toks[k+1:]...)
		case 1:
			mut = append(append(append([]string{}, toks[:k+1]...), toks[k]), toks[k+1:]...)
		case 2:
			mut = append([]string{}, toks...)
			mut[k] = tokenAlphabet[r.rng.Intn(len(tokenAlphabet))]
		default:
			mut = append(append(append([]string{}, toks[:k]...), tokenAlphabet[r.rng.Intn(len(tokenAlphabet))]), toks[k:]...)
		}
		r.addAst("G-expr-mutated", joinToks(mut, textOpts{}), false)
		vt := t.text(textOpts{})
		r.addTree("G-expr-valid", t, vt, nil, modeFor(vt, nil))
	}
	famC04extra(r)
	famBackslashRuns(r)
	famQuotedControl(r)
	famBadQuoted(r)
	famNonASCIIBare(r)
	famLoneMinus(r)
	famLiteralEscapes(r)
}

// ---- C05: no panic, always returns ----
func (r *Run) randomBytes(n int) string {
	b := make([]byte, n)
	for i := range b {
		switch r.rng.Intn(4) {
		case 0:
			b[i] = byte(r.rng.Intn(256))
		case 1:
			const pool = "abc_019.*[]{}()|&!<>=,:@`'\"\\ -?"
			b[i] = pool[r.rng.Intn(len(pool))]
		case 2:
			b[i] = byte(0x80 + r.rng.Intn(0x40))
		default:
			b[i] = byte(0x20 + r.rng.Intn(0x5f))
		}
	}
	return string(b)
}

func (r *Run) mutate(s string) string {
	if len(s) == 0 {
		return r.randomBytes(3)
	}
	b := []byte(s)
	for k := 0; k < 1+r.rng.Intn(3); k++ {
		i := r.rng.Intn(len(b))
		switch r.rng.Intn(5) {
		case 0:
			b[i] ^= 1 << uint(r.rng.Intn(8))
		case 1:
			b = append(b[:i], b[i+1:]...)
		case 2:
			ins := []string{"\x80", "\xc3", "\xff", "\xe2\x82", "\xf0\x9f\x98\x80", "\u0080", "ÿ", "`", "'", "\"", "\\", "[", "&", "9223372036854775807", "-9223372036854775808"}[r.rng.Intn(15)]
			b = append(b[:i], append([]byte(ins), b[i:]...)...)
		case 3:
			b = b[:i]
		default:
			j := r.rng.Intn(len(b))
			b[i], b[j] = b[j], b[i]
		}
		if len(b) == 0 {
			break
		}
	}
	return string(b)
}

func famC05(r *Run) {
	g := &Gen{rng: r.rng, feat: Features{Proj: true, Logic: true, Funcs: true, BadCalls: true, Paren: true, Hostile: true}}
	for _, e := range loadVerifCorpus("hostile.jsonl") {
		{
			d := g.rootDoc()
			r.addSearch("corpus", e, d, modeFor(e, d))
		}
	}
	// slices with steps and bounds at the edge of the integer range, on arrays they traverse
	{
		const maxI = int64(9223372036854775807)
		var steps []int64
		for k := int64(0); k < 4; k++ {
			steps = append(steps, maxI-k, -(maxI - k))
		}
		steps = append(steps, -maxI-1, 4611686018427387904, -4611686018427387904)
		bounds := []*int64{nil}
		for _, b := range []int64{0, 1, 2, 3, -1, -2, maxI, -maxI - 1} {
			x := b
			bounds = append(bounds, &x)
		}
		for n := 1; n <= 5; n++ {
			arr := make([]interface{}, n)
			for i := range arr {
				arr[i] = float64(i)
			}
			for _, st := range steps {
				for _, a := range bounds {
					for _, b := range bounds {
						if r.tier != "thorough" && r.rng.Intn(4) != 0 {
							continue
						}
						stc := st
						t := &Ex{K: "slice", A: a, B: b, C: &stc}
						r.addTree("slice-extremes", t, t.text(textOpts{}), arr, "exact")
					}
				}
			}
		}
	}
	var seeds []string
	for _, c := range loadCompliance() {
		seeds = append(seeds, c.Expr)
	}
	seeds = append(seeds, loadFuzzCorpus()...)
	for i := 0; i < r.n(400, 8000); i++ {
		{
			e, d := r.randomBytes(1+r.rng.Intn(24)), g.rootDoc()
			r.addSearch("G-bytes-random", e, d, modeFor(e, d))
		}
	}
	for i := 0; i < r.n(1200, 30000); i++ {
		{
			e, d := r.mutate(seeds[r.rng.Intn(len(seeds))]), g.rootDoc()
			r.addSearch("G-bytes-mutated", e, d, modeFor(e, d))
		}
	}
	for i := 0; i < r.n(900, 15000); i++ {
		doc := g.rootDoc()
		t := g.expr(0, 4, hAny, doc)
		text := t.text(textOpts{rng: r.rng, spaces: r.rng.Intn(3) == 0})
		r.addTree("G-expr-hostile", t, text, doc, modeFor(text, doc))
	}
	// long inputs: Go side only (time and no panic); the model is not run on them
	for i := 0; i < r.n(30, 400); i++ {
		n := 1024 << uint(r.rng.Intn(7))
		var expr string
		switch r.rng.Intn(5) {
		case 0:
			expr = r.randomBytes(n)
		case 1:
			expr = strings.Repeat("[", n/2) + strings.Repeat("]", n/2)
		case 2:
			expr = strings.Repeat("a.", n/2) + "a"
		case 3:
			expr = "`" + strings.Repeat("[", n/2) + strings.Repeat("]", n/2) + "`"
		default:
			expr = strings.Repeat("!", n) + "a"
		}
		r.mark("G-bytes-long", fmt.Sprintf("<%d bytes>", len(expr)), nil)
		o := observeSearch(expr, g.rootDoc())
		r.count("long:" + o.Kind)
		if o.Kind == "panic" {
			r.violate("G-bytes-long", expr, nil, "panic", o.Msg)
		}
	}
	famC05extra(r)
	famChains(r)
	famManyDistinct(r)
	famBadQuoted(r)
	famNonFinite(r)
	famLongChains(r)
	famQuotedControl(r)
	famNonASCIIBare(r)
	famSourceFunctionNames(r)
	famLoneMinus(r)
	famToNumber(r)
	famArrayPrefixEq(r)
}

// ---- C06: input never modified (the generic oracle does the work) ----
func famC06(r *Run) {
	feat := Features{Proj: true, Logic: true, Funcs: true, BadCalls: true, Paren: true}
	r.treeCases("G-expr-all", r.n(2500, 40000), feat, 5)
	// every function on shared sub-documents, inside projections and pipes
	g := &Gen{rng: r.rng, feat: feat}
	for i := 0; i < r.n(1500, 20000); i++ {
		doc := g.rootDoc()
		c := g.call(3, doc)
		var t *Ex
		switch r.rng.Intn(4) {
		case 0:
			t = c
		case 1:
			t = &Ex{K: "pipe", L: c, Rt: &Ex{K: "mslist", Es: []*Ex{{K: "current"}, {K: "current"}}}}
		case 2:
			t = &Ex{K: "mslist", Es: []*Ex{c, {K: "current"}, c}}
		default:
			t = &Ex{K: "listproj", L: &Ex{K: "mslist", Es: []*Ex{{K: "current"}, {K: "current"}}}, R: Rhs{1, c}}
		}
		text := t.text(textOpts{})
		r.addTree("G-fun-shared", t, text, doc, modeFor(text, doc))
	}
	famC06extra(r)
	famFunctionEdges(r)
	famJSONNumberDocs(r)
	famNullHoles(r)
	famDocWrites(r)
	famTypedSliceSort(r)
}

// ---- C07: truth, logic, comparators ----
func valueUniverse() []interface{} {
	o := func(kv ...interface{}) map[string]interface{} {
		m := map[string]interface{}{}
		for i := 0; i+1 < len(kv); i += 2 {
			m[kv[i].(string)] = kv[i+1]
		}
		return m
	}
	a := func(v ...interface{}) []interface{} { return append([]interface{}{}, v...) }
	negZero := 0.0
	negZero = -negZero
	return []interface{}{
		nil, true, false, 0.0, negZero, 1.0, -1.0, 2.5, 1e21, "", "a", "b", "0", "1", "true", "null", "ü",
		a(), a(nil), a(0.0), a(1.0, 2.0), a(2.0, 1.0), a(a()), a(""), a("a"), a(false),
		o(), o("a", nil), o("a", 1.0), o("a", 1.0, "b", 2.0), o("b", 2.0, "a", 1.0), o("a", a()), o("", ""),
	}
}

func famC07(r *Run) {
	u := valueUniverse()
	lit := func(v interface{}) *Ex { return &Ex{K: "lit", Lit: v} }
	ops := []string{"==", "!=", "<", "<=", ">", ">="}
	// exhaustive pairs x comparators and || &&
	for _, x := range u {
		t := &Ex{K: "not", E: lit(x)}
		r.addTree("universe-not", t, t.text(textOpts{}), nil, "exact")
		for _, y := range u {
			for _, op := range ops {
				t := &Ex{K: "cmp", Op: op, L: lit(x), Rt: lit(y)}
				r.addTree("universe-cmp", t, t.text(textOpts{}), nil, "exact")
			}
			for _, k := range []string{"or", "and"} {
				t := &Ex{K: k, L: lit(x), Rt: lit(y)}
				r.addTree("universe-logic", t, t.text(textOpts{}), nil, "exact")
			}
		}
	}
	// short circuit: the right operand errors
	bad := &Ex{K: "call", Name: "abs", Args: []Arg{{false, &Ex{K: "raw", Name: "x"}}}}
	for _, x := range u {
		for _, k := range []string{"or", "and"} {
			t := &Ex{K: k, L: lit(x), Rt: bad}
			r.addTree("short-circuit", t, t.text(textOpts{}), nil, "exact")
		}
	}
	// nestings, also inside filter conditions, against documents
	r.treeCases("G-expr-logic", r.n(800, 15000), Features{Logic: true, Proj: true, Paren: true, OrderFree: true}, 4)
	docs := []interface{}{u}
	for _, x := range u {
		for _, op := range ops {
			t := &Ex{K: "filter", Cond: &Ex{K: "cmp", Op: op, L: &Ex{K: "current"}, Rt: lit(x)}}
			r.addTree("filter-cmp", t, t.text(textOpts{}), docs[0], "exact")
		}
		t := &Ex{K: "filter", Cond: &Ex{K: "current"}}
		r.addTree("filter-truth", t, t.text(textOpts{}), docs[0], "exact")
	}
	r.corpusSearch("compliance", func(f exprFeatures) bool { return f.lexOK && f.logic && !f.funcs && !f.orderExposing })
	famNotComparisons(r)
	famObjectEquality(r)
	famFilterMixed(r)
	famArrayPrefixEq(r)
}

// ---- C08: slices ----
func famC08(r *Run) {
	maxLen := r.n(4, 6)
	for n := 0; n <= maxLen; n++ {
		arr := make([]interface{}, n)
		for i := range arr {
			arr[i] = float64(i)
		}
		var vals []*int64
		vals = append(vals, nil)
		for v := int64(-n - 2); v <= int64(n+2); v++ {
			x := v
			vals = append(vals, &x)
		}
		for _, a := range vals {
			for _, b := range vals {
				for _, c := range vals {
					t := &Ex{K: "slice", A: a, B: b, C: c}
					r.addTree(fmt.Sprintf("window-len%d", n), t, t.text(textOpts{}), arr, "exact")
					if r.tier == "thorough" || r.rng.Intn(4) == 0 {
						r.typedSliceTwins("typed-slice-window", t.text(textOpts{}), arr)
					}
				}
			}
		}
	}
	// boundary values in every position
	bnd := []int64{1, -1, 2, -2, 2147483647, -2147483648, 2147483648, 4294967296, 9223372036854775806, 9223372036854775807, -9223372036854775807, -9223372036854775808}
	var bvals []*int64
	bvals = append(bvals, nil)
	for i := range bnd {
		bvals = append(bvals, &bnd[i])
	}
	for _, n := range []int{0, 1, 3, 5} {
		arr := make([]interface{}, n)
		for i := range arr {
			arr[i] = float64(i)
		}
		for _, a := range bvals {
			for _, b := range bvals {
				for _, c := range bvals {
					if r.tier != "thorough" && r.rng.Intn(3) != 0 {
						continue
					}
					t := &Ex{K: "slice", A: a, B: b, C: c}
					r.addTree(fmt.Sprintf("boundary-len%d", n), t, t.text(textOpts{}), arr, "exact")
					r.typedSliceTwins("typed-slice-boundary", t.text(textOpts{}), arr)
				}
			}
		}
	}
	// non-arrays and slices as part of larger expressions
	for _, d := range valueUniverse() {
		for _, e := range []string{"[:]", "[::-1]", "[1:2]", "[::0]", "a[::0]", "[0:1][0]"} {
			r.addSearch("non-array", e, d, "exact")
		}
	}
	r.corpusSearch("compliance", func(f exprFeatures) bool {
		return f.lexOK && strings.Contains(filepath.Base("slice.json"), "slice") && false
	})
	for _, c := range loadCompliance() {
		if c.File == "slice.json" {
			r.addSearch("compliance:slice.json", c.Expr, c.Given, "exact")
		}
	}
	famNumberSpellings(r)
	famSliceNonArrays(r)
	famSlicePairs(r)
	famLoneMinus(r)
}

// ---- C09: functions on well-typed arguments ----
func famC09(r *Run) {
	g := &Gen{rng: r.rng, feat: Features{Funcs: true, Proj: true, Paren: true}}
	for i := 0; i < r.n(2500, 40000); i++ {
		doc := g.rootDoc()
		t := g.call(4, doc)
		if r.rng.Intn(4) == 0 {
			t = g.expr(0, 4, hIdent, doc)
		}
		text := t.text(textOpts{})
		r.addTree("G-fun-typed", t, text, doc, modeFor(text, doc))
		r.countTree(t)
	}
	// targeted: unicode, ties, stability, sort.Stable block boundaries
	docs := map[string]interface{}{}
	json.Unmarshal([]byte(`{"s":["b","a","ü","日本","a","Z",""],"n":[3,1,2,1,-0,0,2.5,-1],
	 "people":[{"n":"a","k":2,"t":"x"},{"n":"b","k":1,"t":"x"},{"n":"c","k":2,"t":"y"},{"n":"d","k":1,"t":"y"},{"n":"e","k":3,"t":"x"}],
	 "u":"añ日本😀é","empty":[],"o":{"b":1,"a":2},"o2":{"a":3,"c":4},"nulls":[null,1,null]}`), &docs)
	var long []interface{}
	for i := 0; i < 45; i++ {
		long = append(long, map[string]interface{}{"k": float64((i * 7) % 5), "i": float64(i)})
	}
	docs["long"] = long
	for _, e := range []string{
		"length(u)", "reverse(u)", "reverse(s)", "sort(s)", "sort(n)", "max(s)", "min(s)", "max(n)", "min(n)",
		"sort_by(people, &k)", "sort_by(people, &t)", "sort_by(people, &n)", "max_by(people, &k)", "min_by(people, &k)",
		"max_by(people, &t)", "min_by(people, &t)", "max_by(empty, &k)", "min_by(empty, &k)", "sort_by(empty, &k)",
		"sort_by(long, &k)", "sort_by(long, &k)[*].i", "max_by(long, &k).i", "min_by(long, &k).i",
		"avg(empty)", "avg(n)", "sum(n)", "sum(empty)", "merge(o, o2)", "merge(o2, o)", "merge(o)", "merge(o, o2, o)",
		"map(&k, people)", "map(&z, people)", "map(&@, nulls)", "not_null(nulls[0], nulls[2], nulls[1])", "not_null(nulls[0])",
		"to_number('12.5')", "to_number('1e3')", "to_number('abc')", "to_number('inf')", "to_number('NaN')", "to_number('1e999')",
		"to_number(' 1')", "to_number('-0')", "to_number('.5')", "to_number('5.')", "to_number('+1')", "to_number(`true`)",
		"to_string(o)", "to_string(n)", "to_string(u)", "to_string(`\"<&>\"`)", "to_string(@)", "to_string(`1e21`)", "to_string(`1e-7`)",
		"join(', ', s)", "join('', empty)", "keys(o)", "values(o)", "type(@)", "to_array(o)", "to_array(s)",
		"contains(s, 'a')", "contains(u, '日')", "contains(n, `0`)", "contains(people, people[0])", "starts_with(u, 'añ')", "ends_with(u, '́')",
		"abs(n[7])", "ceil(n[6])", "floor(n[6])", "ceil(`-0.5`)", "floor(`-0.5`)", "length(o)", "length(s)",
	} {
		r.addSearch("targeted", e, docs, modeFor(e, docs))
	}
	for _, c := range loadCompliance() {
		if c.File == "functions.json" && !c.IsErr {
			r.addSearch("compliance:functions.json", c.Expr, c.Given, modeFor(c.Expr, c.Given))
		}
	}
	// direct oracle for order and stability: arrays of 2..60 records with few distinct keys
	// (number and string keys); the expected order is computed here, independently
	for i := 0; i < r.n(60, 600); i++ {
		n := 2 + r.rng.Intn(59)
		nk := 1 + r.rng.Intn(4)
		strKeys := r.rng.Intn(2) == 0
		var arr []interface{}
		keyOf := make([]int, n)
		for j := 0; j < n; j++ {
			k := r.rng.Intn(nk)
			keyOf[j] = k
			var kv interface{} = float64(k)
			if strKeys {
				kv = string(rune('a' + k))
			}
			arr = append(arr, map[string]interface{}{"k": kv, "i": float64(j)})
		}
		doc := map[string]interface{}{"arr": arr}
		// stable ascending order of positions, first maximum, first minimum
		var want []interface{}
		for k := 0; k < nk; k++ {
			for j := 0; j < n; j++ {
				if keyOf[j] == k {
					want = append(want, float64(j))
				}
			}
		}
		firstMax, firstMin := 0, 0
		for j := 1; j < n; j++ {
			if keyOf[j] > keyOf[firstMax] {
				firstMax = j
			}
			if keyOf[j] < keyOf[firstMin] {
				firstMin = j
			}
		}
		for _, q := range []struct {
			e    string
			want interface{}
		}{{"sort_by(arr, &k)[*].i", want}, {"max_by(arr, &k).i", float64(firstMax)}, {"min_by(arr, &k).i", float64(firstMin)}} {
			c := r.addSearch("order-oracle", q.e, doc, "exact")
			if c != nil && !(c.goObs.Kind == "val" && jsonEqual(c.goObs.Value, q.want)) {
				wb, _ := json.Marshal(q.want)
				r.violate("order-oracle", q.e, doc, "not the ascending stable order / the first extremal element", c.goObs.String()+" want "+string(wb))
			}
		}
	}
	famToNumber(r)
	famFunctionEdges(r)
	famObjectEquality(r)
	famNonFinite(r)
	famDocWrites(r)
	famArrayPrefixEq(r)
}

// ---- C10: ill-typed calls ----
func famC10(r *Run) {
	// the matrix: every function name (and unknown names) x arity 0..4 x argument universe
	universe := []*Ex{
		{K: "lit", Lit: nil}, {K: "lit", Lit: true}, {K: "lit", Lit: 1.0}, {K: "raw", Name: "s"},
		{K: "lit", Lit: []interface{}{}}, {K: "lit", Lit: []interface{}{1.0, 2.0}}, {K: "lit", Lit: []interface{}{"a", "b"}},
		{K: "lit", Lit: []interface{}{1.0, "a"}}, {K: "lit", Lit: []interface{}{[]interface{}{1.0}}},
		{K: "lit", Lit: map[string]interface{}{}}, {K: "lit", Lit: map[string]interface{}{"a": 1.0}},
		{K: "lit", Lit: []interface{}{map[string]interface{}{"a": nil}}},
		{K: "lit", Lit: []interface{}{map[string]interface{}{"a": 1.0}, map[string]interface{}{"a": "x"}}},
	}
	refs := []*Ex{{K: "current"}, {K: "ident", Name: "a"}}
	names := []string{}
	for _, s := range fsigs {
		names = append(names, s.name)
	}
	names = append(names, "unknown_fn", "Abs")
	var argChoices []Arg
	for _, u := range universe {
		argChoices = append(argChoices, Arg{false, u})
	}
	for _, u := range refs {
		argChoices = append(argChoices, Arg{true, u})
	}
	for _, name := range names {
		t := &Ex{K: "call", Name: name}
		r.addTree("matrix-arity0", t, t.text(textOpts{}), nil, "perm")
		for _, a := range argChoices {
			t := &Ex{K: "call", Name: name, Args: []Arg{a}}
			r.addTree("matrix-arity1", t, t.text(textOpts{}), nil, "perm")
			for _, b := range argChoices {
				if r.tier != "thorough" && r.rng.Intn(3) != 0 {
					continue
				}
				t := &Ex{K: "call", Name: name, Args: []Arg{a, b}}
				r.addTree("matrix-arity2", t, t.text(textOpts{}), nil, "perm")
			}
		}
		for i := 0; i < r.n(12, 200); i++ {
			n := 3 + r.rng.Intn(2)
			var args []Arg
			for j := 0; j < n; j++ {
				args = append(args, argChoices[r.rng.Intn(len(argChoices))])
			}
			t := &Ex{K: "call", Name: name, Args: args}
			r.addTree("matrix-arity3-4", t, t.text(textOpts{}), nil, "perm")
		}
	}
	g := &Gen{rng: r.rng, feat: Features{Funcs: true, BadCalls: true, Proj: true, Paren: true}}
	for i := 0; i < r.n(800, 15000); i++ {
		doc := g.rootDoc()
		t := g.expr(0, 4, hIdent, doc)
		text := t.text(textOpts{})
		r.addTree("G-fun-nested", t, text, doc, modeFor(text, doc))
	}
	for _, c := range loadCompliance() {
		if c.File == "functions.json" && c.IsErr {
			r.addSearch("compliance:functions.json", c.Expr, c.Given, "perm")
		}
	}
	famFunctionEdges(r)
	famGoNumbers(r)
	famNonFinite(r)
	famSourceFunctionNames(r)
}

// ---- C11: error propagation ----
func famC11(r *Run) {
	seeds := []*Ex{
		{K: "call", Name: "abs", Args: []Arg{{false, &Ex{K: "raw", Name: "x"}}}},
		{K: "call", Name: "abs", Args: nil},
		{K: "call", Name: "nosuch", Args: []Arg{{false, &Ex{K: "current"}}}},
		{K: "index", L: &Ex{K: "paren", E: &Ex{K: "slice", L: &Ex{K: "lit", Lit: []interface{}{1.0}}, C: i64(0)}}, I: 0},
		{K: "call", Name: "sort_by", Args: []Arg{{false, &Ex{K: "lit", Lit: []interface{}{1.0, "a"}}}, {true, &Ex{K: "current"}}}},
		{K: "call", Name: "length", Args: []Arg{{false, &Ex{K: "lit", Lit: 1.0}}}},
		{K: "call", Name: "map", Args: []Arg{{true, &Ex{K: "call", Name: "abs", Args: []Arg{{false, &Ex{K: "raw", Name: "q"}}}}}, {false, &Ex{K: "lit", Lit: []interface{}{1.0}}}}},
	}
	docs := []interface{}{}
	for _, s := range []string{`{"a":[1,2],"b":{"x":1},"e":[],"n":null,"s":"str","t":true}`, `[1,[2],{"a":1}]`, `null`, `{"a":[{"a":1},{"a":2}],"b":{}}`} {
		var d interface{}
		json.Unmarshal([]byte(s), &d)
		docs = append(docs, d)
	}
	id := func(n string) *Ex { return &Ex{K: "ident", Name: n} }
	ctxs := []func(h *Ex) *Ex{
		func(h *Ex) *Ex { return h },
		func(h *Ex) *Ex { return &Ex{K: "paren", E: h} },
		func(h *Ex) *Ex { return &Ex{K: "pipe", L: h, Rt: id("a")} },
		func(h *Ex) *Ex { return &Ex{K: "pipe", L: id("a"), Rt: h} },
		func(h *Ex) *Ex { return &Ex{K: "sub", L: &Ex{K: "paren", E: h}, Rt: id("a")} },
		func(h *Ex) *Ex { return &Ex{K: "index", L: &Ex{K: "paren", E: h}, I: 0} },
		func(h *Ex) *Ex { return &Ex{K: "listproj", L: &Ex{K: "paren", E: h}} },
		func(h *Ex) *Ex { return &Ex{K: "flatten", L: &Ex{K: "paren", E: h}} },
		func(h *Ex) *Ex { return &Ex{K: "filter", L: &Ex{K: "paren", E: h}, Cond: &Ex{K: "current"}} },
		func(h *Ex) *Ex { return &Ex{K: "valproj", L: &Ex{K: "paren", E: h}} },
		func(h *Ex) *Ex { return &Ex{K: "slice", L: &Ex{K: "paren", E: h}} },
		func(h *Ex) *Ex { return &Ex{K: "listproj", L: id("a"), R: Rhs{1, &Ex{K: "mslist", Es: []*Ex{h}}}} },
		func(h *Ex) *Ex { return &Ex{K: "filter", L: id("a"), Cond: h} },
		func(h *Ex) *Ex { return &Ex{K: "filter", L: id("e"), Cond: h} },
		func(h *Ex) *Ex { return &Ex{K: "filter", L: id("s"), Cond: h} },
		func(h *Ex) *Ex { return &Ex{K: "listproj", L: id("e"), R: Rhs{1, &Ex{K: "mslist", Es: []*Ex{h}}}} },
		func(h *Ex) *Ex { return &Ex{K: "valproj", L: id("b"), R: Rhs{1, &Ex{K: "mslist", Es: []*Ex{h}}}} },
		func(h *Ex) *Ex {
			return &Ex{K: "flatten", L: id("a"), R: Rhs{1, &Ex{K: "mshash", KVs: []KV{{false, "k", h}}}}}
		},
		func(h *Ex) *Ex { return &Ex{K: "or", L: h, Rt: id("a")} },
		func(h *Ex) *Ex { return &Ex{K: "or", L: id("n"), Rt: h} },
		func(h *Ex) *Ex { return &Ex{K: "or", L: id("a"), Rt: h} },
		func(h *Ex) *Ex { return &Ex{K: "and", L: h, Rt: id("a")} },
		func(h *Ex) *Ex { return &Ex{K: "and", L: id("a"), Rt: h} },
		func(h *Ex) *Ex { return &Ex{K: "and", L: id("n"), Rt: h} },
		func(h *Ex) *Ex { return &Ex{K: "not", E: &Ex{K: "paren", E: h}} },
		func(h *Ex) *Ex { return &Ex{K: "cmp", Op: "==", L: h, Rt: id("a")} },
		func(h *Ex) *Ex { return &Ex{K: "cmp", Op: "<", L: id("a"), Rt: h} },
		func(h *Ex) *Ex { return &Ex{K: "mslist", Es: []*Ex{id("a"), h}} },
		func(h *Ex) *Ex { return &Ex{K: "mshash", KVs: []KV{{false, "k", id("a")}, {false, "l", h}}} },
		func(h *Ex) *Ex { return &Ex{K: "call", Name: "to_array", Args: []Arg{{false, h}}} },
		func(h *Ex) *Ex { return &Ex{K: "call", Name: "not_null", Args: []Arg{{false, id("a")}, {false, h}}} },
		func(h *Ex) *Ex { return &Ex{K: "call", Name: "map", Args: []Arg{{true, h}, {false, id("a")}}} },
		func(h *Ex) *Ex { return &Ex{K: "call", Name: "map", Args: []Arg{{true, h}, {false, id("e")}}} },
		func(h *Ex) *Ex { return &Ex{K: "call", Name: "sort_by", Args: []Arg{{false, id("a")}, {true, h}}} },
		func(h *Ex) *Ex { return &Ex{K: "call", Name: "max_by", Args: []Arg{{false, id("a")}, {true, h}}} },
		func(h *Ex) *Ex { return &Ex{K: "call", Name: "min_by", Args: []Arg{{false, id("a")}, {true, h}}} },
	}
	for _, s := range seeds {
		for _, d := range docs {
			for _, c1 := range ctxs {
				t := c1(s)
				r.addTree("ctx-depth1", t, t.text(textOpts{}), d, "perm")
				for _, c2 := range ctxs {
					if r.tier != "thorough" && r.rng.Intn(6) != 0 {
						continue
					}
					t2 := c2(&Ex{K: "paren", E: c1(s)})
					r.addTree("ctx-depth2", t2, t2.text(textOpts{}), d, "perm")
				}
			}
		}
	}
	r.treeCases("G-expr-badcalls", r.n(600, 10000), Features{Proj: true, Logic: true, Funcs: true, BadCalls: true, Paren: true}, 5)
	famFunctionEdges(r)
	famTypedSliceErrors(r)
	famLateErrors(r)
}

func i64(v int64) *int64 { return &v }

// ---- C16: JSON closure ----
func famC16(r *Run) {
	r.treeCases("G-expr-all", r.n(2000, 30000), Features{Proj: true, Logic: true, Funcs: true, Paren: true}, 5)
	famC09(r)
	famCallSequences(r)
	famSourceFunctionNames(r)
}

// ---- C17: Compile's contract ----
func famC17(r *Run) {
	check := func(family, expr string) {
		c := r.addAst(family, expr, true)
		r.addTok(family, expr)
		if c != nil {
			r.contractC17(family, expr)
		}
	}
	for _, e := range loadVerifCorpus("syntax.jsonl") {
		check("corpus", e)
	}
	seen := map[string]bool{}
	var seeds []string
	for _, c := range loadCompliance() {
		if !seen[c.Expr] {
			seen[c.Expr] = true
			seeds = append(seeds, c.Expr)
			check("compliance:"+c.File, c.Expr)
		}
	}
	for _, e := range loadFuzzCorpus() {
		check("fuzz-testdata", e)
	}
	for i := 0; i < r.n(300, 6000); i++ {
		check("G-bytes-random", r.randomBytes(1+r.rng.Intn(16)))
	}
	for i := 0; i < r.n(800, 20000); i++ {
		check("G-bytes-mutated", r.mutate(seeds[r.rng.Intn(len(seeds))]))
	}
	for i := 0; i < r.n(600, 15000); i++ {
		n := 1 + r.rng.Intn(6)
		toks := make([]string, n)
		for j := range toks {
			toks[j] = tokenAlphabet[r.rng.Intn(len(tokenAlphabet))]
		}
		check("G-tok", joinToks(toks, textOpts{rng: r.rng, spaces: r.rng.Intn(2) == 0}))
	}
	famMustCompileText(r)
	famBadUTF8Offsets(r)
	famBadQuoted(r)
	famUnicodeSpaceEnds(r)
}

func (r *Run) contractC17(family, expr string) {
	var jp *jmespath.JMESPath
	var err error
	func() {
		defer func() {
			if p := recover(); p != nil {
				r.violate(family, expr, nil, "Compile panicked", fmt.Sprint(p))
			}
		}()
		jp, err = jmespath.Compile(expr)
	}()
	if (jp == nil) == (err == nil) {
		r.violate(family, expr, nil, "Compile returned both or neither of (expression, error)", fmt.Sprintf("jp=%v err=%v", jp != nil, err))
		return
	}
	if se, ok := err.(jmespath.SyntaxError); ok {
		if se.Offset < 0 || se.Offset > len(expr) {
			r.violate(family, expr, nil, "syntax error offset outside the expression", fmt.Sprintf("offset %d, length %d", se.Offset, len(expr)))
		} else {
			func() {
				defer func() {
					if p := recover(); p != nil {
						r.violate(family, expr, nil, "HighlightLocation panicked", fmt.Sprint(p))
					}
				}()
				want := expr + "\n" + strings.Repeat(" ", se.Offset) + "^"
				if se.HighlightLocation() != want {
					r.violate(family, expr, nil, "caret rendering differs", se.HighlightLocation())
				}
			}()
		}
		if se.Expression != expr {
			r.violate(family, expr, nil, "syntax error does not carry the original expression", se.Expression)
		}
	}
	// MustCompile panics exactly when Compile fails, naming the expression
	var must *jmespath.JMESPath
	var pv interface{}
	func() {
		defer func() { pv = recover() }()
		must = jmespath.MustCompile(expr)
	}()
	if err != nil {
		msg, _ := pv.(string)
		if pv == nil {
			r.violate(family, expr, nil, "MustCompile did not panic although Compile failed", "")
		} else if !strings.Contains(msg, fmt.Sprintf("%q", expr)) {
			r.violate(family, expr, nil, "MustCompile's panic does not name the expression", fmt.Sprint(pv))
		}
	} else {
		if pv != nil || must == nil {
			r.violate(family, expr, nil, "MustCompile panicked although Compile succeeded", fmt.Sprint(pv))
		} else if !sameNode(jmespath.VerifCompiledAST(must), jmespath.VerifCompiledAST(jp)) {
			r.violate(family, expr, nil, "MustCompile and Compile differ", "")
		}
	}
}

// ---- replay ----
func doReplay(path string) int {
	data, err := ioutil.ReadFile(path)
	if err != nil {
		fmt.Println(err)
		return 2
	}
	var rp struct {
		Expr    string      `json:"expr"`
		Doc     interface{} `json:"doc"`
		Prelude []string    `json:"prelude"`
	}
	if err := json.Unmarshal(data, &rp); err != nil {
		fmt.Println(err)
		return 2
	}
	for _, p := range rp.Prelude {
		fmt.Printf("before it:  %q (a call whose outcome is ignored)\n", p)
		runPoison(p)
	}
	fmt.Printf("expression: %q\n", rp.Expr)
	d, _ := json.Marshal(rp.Doc)
	fmt.Printf("document:   %s\n", d)
	a := observeCompile(rp.Expr)
	fmt.Printf("Compile:    %s %s\n", a.Kind, a.Msg)
	o := observeSearch(rp.Expr, rp.Doc)
	fmt.Printf("Search:     %s\n", o.String())
	return 0
}

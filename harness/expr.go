package main

// Expression trees on the Go side: the same shape as Spec/Grammar.v's expr,
// with a Coq-term emitter and a text renderer (random inter-token whitespace,
// choice of JSON spelling for literals). The precedence levels repeat the
// specification's table; Coq re-checks every generated tree with wp, so a wrong
// tree here can only lower the yield, never cause an alarm.

import (
	"encoding/json"
	"math/rand"
	"strconv"
	"strings"
)

type Rhs struct {
	Kind int // 0 none, 1 dot, 2 bracket
	E    *Ex
}

type Arg struct {
	Ref bool
	E   *Ex
}

type KV struct {
	Quoted bool
	Name   string
	E      *Ex
}

type Ex struct {
	K       string
	Quoted  bool
	Name    string
	Lit     interface{}
	E       *Ex
	Es      []*Ex
	KVs     []KV
	Args    []Arg
	L       *Ex // optional left-hand side of bracket / wildcard forms
	I       int64
	A, B, C *int64
	R       Rhs
	Cond    *Ex
	Op      string
	Rt      *Ex
}

const (
	lvlPipe    = 1
	lvlOr      = 2
	lvlAnd     = 3
	lvlCmp     = 5
	lvlFlatten = 9
	lvlStar    = 20
	lvlFilter  = 21
	lvlDot     = 40
	lvlNot     = 45
	lvlBracket = 55
	lvlCall    = 60
	lvlTop     = 1000
)

func min(a, b int) int {
	if a < b {
		return a
	}
	return b
}

func (r Rhs) rl(p int) int {
	if r.Kind == 0 {
		return 9
	}
	return min(p, r.E.rl())
}

// rl mirrors Spec.Grammar.rl
func (e *Ex) rl() int {
	switch e.K {
	case "not":
		return min(lvlNot, e.E.rl())
	case "slice", "listproj", "valproj":
		return e.R.rl(lvlStar)
	case "flatten":
		return e.R.rl(lvlFlatten)
	case "filter":
		return e.R.rl(lvlFilter)
	case "sub":
		return min(lvlDot, e.Rt.rl())
	case "pipe":
		return min(lvlPipe, e.Rt.rl())
	case "or":
		return min(lvlOr, e.Rt.rl())
	case "and":
		return min(lvlAnd, e.Rt.rl())
	case "cmp":
		return min(lvlCmp, e.Rt.rl())
	}
	return lvlTop
}

func coqOptZ(p *int64) string {
	if p == nil {
		return "noZ"
	}
	return "(soZ " + coqZ(*p) + ")"
}

func (r Rhs) coq() string {
	switch r.Kind {
	case 1:
		return "(rDot " + r.E.coq() + ")"
	case 2:
		return "(rBrk " + r.E.coq() + ")"
	}
	return "rNone"
}

func coqOptEx(e *Ex) string {
	if e == nil {
		return "noE"
	}
	return "(soE " + e.coq() + ")"
}

var cmpCoq = map[string]string{"==": "CmpEQ", "!=": "CmpNE", "<": "CmpLT", "<=": "CmpLE", ">": "CmpGT", ">=": "CmpGE"}

func (e *Ex) coq() string {
	switch e.K {
	case "ident":
		return "(eIdent " + coqBool(e.Quoted) + " " + coqBytes(e.Name) + ")"
	case "current":
		return "eCurrent"
	case "lit":
		s, ok := coqValue(e.Lit)
		if !ok {
			panic("literal not JSON")
		}
		return "(eLit " + s + ")"
	case "raw":
		return "(eRaw " + coqBytes(e.Name) + ")"
	case "paren":
		return "(eParen " + e.E.coq() + ")"
	case "mslist":
		parts := make([]string, len(e.Es))
		for i, x := range e.Es {
			parts[i] = x.coq()
		}
		return "(eMSList [" + strings.Join(parts, "; ") + "])"
	case "mshash":
		parts := make([]string, len(e.KVs))
		for i, kv := range e.KVs {
			parts[i] = "(" + coqBool(kv.Quoted) + ", " + coqBytes(kv.Name) + ", " + kv.E.coq() + ")"
		}
		return "(eMSHash [" + strings.Join(parts, "; ") + "])"
	case "call":
		parts := make([]string, len(e.Args))
		for i, a := range e.Args {
			if a.Ref {
				parts[i] = "aRef " + a.E.coq()
			} else {
				parts[i] = "aExpr " + a.E.coq()
			}
		}
		return "(eCall " + coqBytes(e.Name) + " [" + strings.Join(parts, "; ") + "])"
	case "not":
		return "(eNot " + e.E.coq() + ")"
	case "index":
		return "(eIndex " + coqOptEx(e.L) + " " + coqZ(e.I) + ")"
	case "slice":
		return "(eSlice " + coqOptEx(e.L) + " " + coqOptZ(e.A) + " " + coqOptZ(e.B) + " " + coqOptZ(e.C) + " " + e.R.coq() + ")"
	case "listproj":
		return "(eListProj " + coqOptEx(e.L) + " " + e.R.coq() + ")"
	case "flatten":
		return "(eFlatten " + coqOptEx(e.L) + " " + e.R.coq() + ")"
	case "filter":
		return "(eFilter " + coqOptEx(e.L) + " " + e.Cond.coq() + " " + e.R.coq() + ")"
	case "valproj":
		return "(eValProj " + coqOptEx(e.L) + " " + e.R.coq() + ")"
	case "sub":
		return "(eSub " + e.L.coq() + " " + e.Rt.coq() + ")"
	case "pipe":
		return "(ePipe " + e.L.coq() + " " + e.Rt.coq() + ")"
	case "or":
		return "(eOr " + e.L.coq() + " " + e.Rt.coq() + ")"
	case "and":
		return "(eAnd " + e.L.coq() + " " + e.Rt.coq() + ")"
	case "cmp":
		return "(eCmp " + cmpCoq[e.Op] + " " + e.L.coq() + " " + e.Rt.coq() + ")"
	}
	panic("unknown Ex kind " + e.K)
}

// ---- text ----

// tok is one token's spelling; glue=true means no whitespace may be inserted
// before it is needed to keep tokens apart (we always may insert whitespace
// between tokens; we must insert it only where two tokens would merge).
type textOpts struct {
	rng    *rand.Rand
	spaces bool // random whitespace between tokens
}

func quoteIdent(s string) string {
	b, _ := json.Marshal(s)
	// json.Marshal escapes <, >, & as \u00XX: still a valid JSON string spelling
	return string(b)
}

func rawSpelling(s string) string {
	return "'" + strings.Replace(s, "'", "\\'", -1) + "'"
}

func litSpelling(v interface{}, rng *rand.Rand) string {
	var b []byte
	if rng != nil && rng.Intn(3) == 0 {
		b, _ = json.MarshalIndent(v, "", " ")
	} else {
		b, _ = json.Marshal(v)
	}
	return "`" + strings.Replace(string(b), "`", "\\`", -1) + "`"
}

func isIdentChar(c byte) bool {
	return c == '_' || (c >= '0' && c <= '9') || (c >= 'a' && c <= 'z') || (c >= 'A' && c <= 'Z')
}

// needSpace: would a and b lex differently when written adjacent?
func needSpace(a, b string) bool {
	if a == "" || b == "" {
		return false
	}
	x, y := a[len(a)-1], b[0]
	if isIdentChar(x) && isIdentChar(y) {
		return true
	}
	if (x == '-' || (x >= '0' && x <= '9')) && y >= '0' && y <= '9' {
		return true
	}
	pair := string([]byte{x, y})
	switch pair {
	case "||", "&&", "==", "!=", "<=", ">=", "[]", "[?":
		return true
	}
	return false
}

func joinToks(toks []string, o textOpts) string {
	var b strings.Builder
	for i, t := range toks {
		if i > 0 {
			sp := needSpace(toks[i-1], t)
			if o.spaces && o.rng != nil && o.rng.Intn(4) == 0 {
				sp = true
			}
			if sp {
				ws := " "
				if o.spaces && o.rng != nil {
					ws = []string{" ", "  ", "\t", "\n", " \r\n"}[o.rng.Intn(5)]
				}
				b.WriteString(ws)
			}
		}
		b.WriteString(t)
	}
	return b.String()
}

func (r Rhs) toks(o textOpts) []string {
	switch r.Kind {
	case 1:
		return append([]string{"."}, r.E.toks(o)...)
	case 2:
		return r.E.toks(o)
	}
	return nil
}

func optToks(e *Ex, o textOpts) []string {
	if e == nil {
		return nil
	}
	return e.toks(o)
}

func optNum(p *int64) []string {
	if p == nil {
		return nil
	}
	return []string{strconv.FormatInt(*p, 10)}
}

func (e *Ex) toks(o textOpts) []string {
	cat := func(parts ...[]string) []string {
		var out []string
		for _, p := range parts {
			out = append(out, p...)
		}
		return out
	}
	switch e.K {
	case "ident":
		if e.Quoted {
			return []string{quoteIdent(e.Name)}
		}
		return []string{e.Name}
	case "current":
		return []string{"@"}
	case "lit":
		return []string{litSpelling(e.Lit, o.rng)}
	case "raw":
		return []string{rawSpelling(e.Name)}
	case "paren":
		return cat([]string{"("}, e.E.toks(o), []string{")"})
	case "mslist":
		out := []string{"["}
		for i, x := range e.Es {
			if i > 0 {
				out = append(out, ",")
			}
			out = append(out, x.toks(o)...)
		}
		return append(out, "]")
	case "mshash":
		out := []string{"{"}
		for i, kv := range e.KVs {
			if i > 0 {
				out = append(out, ",")
			}
			if kv.Quoted {
				out = append(out, quoteIdent(kv.Name))
			} else {
				out = append(out, kv.Name)
			}
			out = append(out, ":")
			out = append(out, kv.E.toks(o)...)
		}
		return append(out, "}")
	case "call":
		out := []string{e.Name, "("}
		for i, a := range e.Args {
			if i > 0 {
				out = append(out, ",")
			}
			if a.Ref {
				out = append(out, "&")
			}
			out = append(out, a.E.toks(o)...)
		}
		return append(out, ")")
	case "not":
		return cat([]string{"!"}, e.E.toks(o))
	case "index":
		return cat(optToks(e.L, o), []string{"[", strconv.FormatInt(e.I, 10), "]"})
	case "slice":
		out := cat(optToks(e.L, o), []string{"["}, optNum(e.A), []string{":"}, optNum(e.B))
		if e.C != nil {
			out = cat(out, []string{":"}, optNum(e.C))
		}
		return cat(out, []string{"]"}, e.R.toks(o))
	case "listproj":
		return cat(optToks(e.L, o), []string{"[", "*", "]"}, e.R.toks(o))
	case "flatten":
		return cat(optToks(e.L, o), []string{"[]"}, e.R.toks(o))
	case "filter":
		return cat(optToks(e.L, o), []string{"[?"}, e.Cond.toks(o), []string{"]"}, e.R.toks(o))
	case "valproj":
		if e.L != nil {
			return cat(e.L.toks(o), []string{".", "*"}, e.R.toks(o))
		}
		return cat([]string{"*"}, e.R.toks(o))
	case "sub":
		return cat(e.L.toks(o), []string{"."}, e.Rt.toks(o))
	case "pipe":
		return cat(e.L.toks(o), []string{"|"}, e.Rt.toks(o))
	case "or":
		return cat(e.L.toks(o), []string{"||"}, e.Rt.toks(o))
	case "and":
		return cat(e.L.toks(o), []string{"&&"}, e.Rt.toks(o))
	case "cmp":
		return cat(e.L.toks(o), []string{e.Op}, e.Rt.toks(o))
	}
	panic("unknown Ex kind " + e.K)
}

func (e *Ex) text(o textOpts) string { return joinToks(e.toks(o), o) }

// fullParen wraps every operand that the grammar allows to be parenthesised.
func fullParen(e *Ex) *Ex {
	p := func(x *Ex) *Ex {
		if x == nil {
			return nil
		}
		return &Ex{K: "paren", E: fullParen(x)}
	}
	rhs := func(r Rhs) Rhs {
		if r.Kind == 0 {
			return r
		}
		return Rhs{r.Kind, fullParenInner(r.E)}
	}
	c := *e
	switch e.K {
	case "paren":
		c.E = fullParen(e.E)
	case "mslist":
		c.Es = nil
		for _, x := range e.Es {
			c.Es = append(c.Es, p(x))
		}
	case "mshash":
		c.KVs = nil
		for _, kv := range e.KVs {
			c.KVs = append(c.KVs, KV{kv.Quoted, kv.Name, p(kv.E)})
		}
	case "call":
		c.Args = nil
		for _, a := range e.Args {
			c.Args = append(c.Args, Arg{a.Ref, p(a.E)})
		}
	case "not":
		c.E = p(e.E)
	case "index":
		c.L = p(e.L)
	case "slice", "listproj", "flatten", "valproj":
		c.L = p(e.L)
		c.R = rhs(e.R)
	case "filter":
		c.L = p(e.L)
		c.Cond = p(e.Cond)
		c.R = rhs(e.R)
	case "sub":
		c.L = p(e.L)
		c.Rt = fullParenInner(e.Rt)
	case "pipe", "or", "and", "cmp":
		c.L = p(e.L)
		c.Rt = p(e.Rt)
	}
	return &c
}

// fullParenInner: a dot or projection right-hand side cannot itself be wrapped
// (a.(b) is not grammatical); parenthesise inside it, but keep its head bare.
func fullParenInner(e *Ex) *Ex {
	c := *e
	keepHead := func(x *Ex) *Ex {
		if x == nil {
			return nil
		}
		return fullParenInner(x)
	}
	rhs := func(r Rhs) Rhs {
		if r.Kind == 0 {
			return r
		}
		return Rhs{r.Kind, fullParenInner(r.E)}
	}
	switch e.K {
	case "index":
		c.L = keepHead(e.L)
	case "slice", "listproj", "flatten", "valproj":
		c.L = keepHead(e.L)
		c.R = rhs(e.R)
	case "filter":
		c.L = keepHead(e.L)
		c.Cond = &Ex{K: "paren", E: fullParen(e.Cond)}
		c.R = rhs(e.R)
	case "sub":
		c.L = keepHead(e.L)
		c.Rt = fullParenInner(e.Rt)
	default:
		return fullParenAtom(e)
	}
	return &c
}

// fullParenAtom parenthesises inside a closed form without wrapping the form.
func fullParenAtom(e *Ex) *Ex {
	switch e.K {
	case "mslist", "mshash", "call", "paren":
		return fullParen(e)
	}
	return e
}

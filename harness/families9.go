package main

// Families added after the sixth round of seeded changes.

import (
	"encoding/json"
	"fmt"
	"sync"

	jmespath "github.com/jmespath/go-jmespath"
)

// a minus sign that is not followed by a digit, and numbers beyond int64, in every number position of a bracket (C04, C05, C08)
func famLoneMinus(r *Run) {
	d := map[string]interface{}{"foo": []interface{}{"a", "b", "c"}}
	for _, n := range []string{"-", "- ", "--1", "-a", "- 1", "-]", "99999999999999999999", "-99999999999999999999", "9223372036854775808", "-9223372036854775809", "-9223372036854775808", "9223372036854775807", "-0", "+1", "1-", "1-1"} {
		for _, e := range []string{"foo[" + n + "]", "[" + n + "]", "foo[" + n + ":]", "foo[:" + n + "]", "foo[1:" + n + ":2]", "foo[::" + n + "]", "foo[*][" + n + "]", "foo[" + n + "].bar", "foo[" + n + "][" + n + "]", "foo[?@[" + n + "]]"} {
			r.addAst("lone-minus", e, true)
			r.addSearch("lone-minus", e, d, "exact")
		}
	}
}

// writes through a nested object or a long array of the document on rarely taken paths (C06, C09)
func famDocWrites(r *Run) {
	var d interface{}
	json.Unmarshal([]byte(`{"defaults":{"db":{"host":"localhost","port":5432,"opt":{"colour":"red"}},"n":1},"overrides":{"db":{"host":"db.prod.example","opt":{"size":2}},"n":{"x":1}},
	 "third":{"db":{},"k":{}},"readings":[3,1,4,1,5,9,2,6,5,3,5,8,"n/a"],"words":["a","b","c","d","e","f","g","h","i","j","k","l",7],"long":[1,2,3,4,5,6,7,8,9,10,11,12,13,14],
	 "items":[{"defaults":{"o":{"a":1}},"overrides":{"o":{"b":2}}}],"objs":[{"k":{"p":1}},{"k":{"q":2}},{"k":{}}]}`), &d)
	for _, e := range []string{"merge(defaults, overrides)", "merge(defaults, overrides).db", "merge(defaults, overrides, third)", "merge(overrides, defaults)", "items[].merge(defaults, overrides)",
		"merge(objs[0], objs[1], objs[2]).k", "merge(defaults, overrides) | defaults.db.host", "[merge(defaults, overrides), defaults]", "merge(defaults, {db: overrides.db})", "merge(@, {defaults: overrides})",
		"sum(readings)", "avg(readings)", "max(readings)", "min(readings)", "sort(readings)", "readings | abs(@)", "map(&join(',', @), [readings])", "join(',', readings)", "join(',', words)", "sort(words)",
		"max(words)", "abs(long)", "length(abs(long))", "ceil(readings)", "starts_with(long, 'a')", "contains(long, `14`) && abs(long)", "keys(long)", "merge(long)", "to_number(readings)", "not_null(abs(long), long)",
		"sort_by(readings, &@)", "max_by(words, &@)", "reverse(readings) | sum(@)", "readings[?@ > `2`] | sum(@)", "[readings, sum(readings)]", "sum(long) && sum(readings)"} {
		r.addSearch("doc-writes", e, d, modeFor(e, d))
	}
}

// an error that only a later element, an empty array or a skipped step can raise (C11, C15, C08)
func famLateErrors(r *Run) {
	var d interface{}
	json.Unmarshal([]byte(`{"foo":[1,"a"],"bar":[{"a":5},{"a":"x"}],"baz":[{"a":1},{}],"e":[],"ee":[[]],"nums":[1,2,3],"nul":[1,null,"a"],"objs":[{"a":"xy"},{"b":"z"}],"rows":[{"n":1},{"n":2},{"n":"x"}]}`), &d)
	exprs := []string{
		"foo[*].abs(@) | [0]", "foo[?abs(@) > `0`] | [0]", "bar[?abs(a) > `1`] | [0]", "baz[*].[a || abs(`\"x\"`)] | [0]", "baz[*].[a || nosuchfn(@)] | [0]", "[foo[*].abs(@) | [0], `2`]",
		"foo[*].abs(@) | [1]", "foo[*].abs(@) | [0].x", "bar[?abs(a) > `1`] | [0].a", "bar[?abs(a) > `1`] | [0][0]", "rows[?abs(n) > `0`] | [1].n | length(@)", "rows[*].abs(n) | [0]", "rows[].abs(n) | [0]",
		"rows[:3].abs(n) | [0]", "foo[*].abs(@) | [-1]", "foo[*].abs(@)[0]", "(foo[*].abs(@))[0]", "foo[?abs(@) > `0`][0]", "bar[?abs(a) > `1`] | length(@)", "bar[?abs(a) > `1`] | [0] || 'x'",
		"e[::0]", "length(e[::0])", "[e[::0], `1`]", "nums[?@ > `5`] | [::0]", "map(&[::0], ee)", "e[1:2:0]", "ee[0][::0]", "ee[*][::0]", "e[::0] || 'x'", "e[::0][0]", "{a: e[::0]}", "not_null(e[::0])",
		"nul[*] | [*].type(@)", "objs[*].a | [*].length(@)", "nul[*] | [*].not_null(@, `0`)", "nul[] | [*].type(@)", "nul[:3] | [*].type(@)", "nul[*] | [].type(@)", "nul[*].type(@) | [*].length(@)",
		"objs[*].b | [*].to_array(@)", "nul[*] | [?type(@) == 'null']", "nul[*] | map(&type(@), @)", "(nul[*]) | [*].type(@)", "nul[*] | @[*].type(@)",
	}
	for _, e := range exprs {
		r.addSearch("late-errors", e, d, modeFor(e, d))
	}
	// the pipe split on the same expressions
	for _, pr := range [][2]string{{"foo[*].abs(@)", "[0]"}, {"bar[?abs(a) > `1`]", "[0]"}, {"rows[?abs(n) > `0`]", "[1].n"}, {"nul[*]", "[*].type(@)"}, {"objs[*].a", "[*].length(@)"}, {"nul[]", "[*].not_null(@, `0`)"},
		{"nums[?@ > `5`]", "[::0]"}, {"e", "[::0]"}} {
		whole := pr[0] + " | " + pr[1]
		ow := observeSearch(whole, deepCopy(d))
		oa := observeSearch(pr[0], deepCopy(d))
		want := oa
		if oa.Kind == "val" {
			want = observeSearch(pr[1], oa.Value)
		}
		if canon(ow, false) != canon(want, false) {
			r.violate("late-errors", whole, d, "Search('A | B', d) differs from Search(B, Search(A, d))", ow.String()+" vs "+want.String())
		}
	}
}

// JSON escapes that json.Marshal never writes, in string literals at top level and nested (C14, C04)
func famLiteralEscapes(r *Run) {
	d := map[string]interface{}{"a/b": 1.0, "\U0001F600": 2.0}
	for _, body := range []string{`"a\/b"`, `"😀"`, `"😀x"`, `"\/"`, `"A\/é"`, `"\ud800"`, `"\udc00\ud800"`, `"\b\f\n\r\t"`, `"\u0000"`, `"\"\\\/"`, `"é"`, `"  "`} {
		for _, e := range []string{"`" + body + "`", "`[" + body + "]`", "`{\"k\": " + body + "}`", "`" + body + "` == `" + body + "`", "length(`" + body + "`)", "[`" + body + "`, 'x']", "@.`" + body + "`", " `" + body + "` "} {
			r.addAst("literal-escapes", e, true)
			r.addSearch("literal-escapes", e, d, "exact")
		}
		r.addSearch("literal-escapes", body, d, "exact") // the same spelling as a quoted identifier
	}
}

// a function whose result aliases its argument list, followed by another call at the same depth (C16, C15)
func famCallSequences(r *Run) {
	var d interface{}
	json.Unmarshal([]byte(`{"a":1,"c":[{"b":2},{"b":3}],"name":"n","items":[{"n":1},{"n":2}],"s":"x","o":{"k":1}}`), &d)
	firsts := []string{"to_array(a)", "to_array(name)", "to_array(o)", "to_array(`null`)", "not_null(a)", "not_null(`null`, s)", "to_string(a)", "to_number(s)", "type(a)", "merge(o)", "values(o)", "keys(o)", "[a]", "to_array(c)"}
	seconds := []string{"map(&b, c)", "map(&n, items)", "sort_by(c, &b)", "max_by(items, &n)", "min_by(c, &b)", "to_array(s)", "not_null(s, a)", "merge(o, o)", "length(c)", "map(&to_array(@), c)", "sort_by(items, &to_string(n))"}
	for _, f := range firsts {
		for _, s := range seconds {
			for _, e := range []string{"[" + f + ", " + s + "]", "{first: " + f + ", rest: " + s + "}", f + " | [@, " + s + "]", "[" + f + ", " + s + ", " + f + "]", "[" + s + ", " + f + "]"} {
				r.addSearch("call-sequences", e, d, modeFor(e, d))
			}
		}
	}
}

// pointers to structs whose fields are all zero: not null, not false (C18, C07)
func famZeroStructs(r *Run) {
	type point struct {
		Label string  `json:"label"`
		X     float64 `json:"x"`
		Done  bool    `json:"done"`
	}
	type shape struct {
		Name    string   `json:"name"`
		Origin  *point   `json:"origin"`
		Corners []*point `json:"corners"`
		Byval   point    `json:"byval"`
		Vals    []point  `json:"vals"`
	}
	docs := []interface{}{
		shape{Name: "square", Origin: &point{}, Corners: []*point{{}, {Label: "b"}, {}}, Vals: []point{{}, {X: 1}}},
		&shape{Name: "sq", Origin: &point{}, Corners: []*point{{}}, Vals: []point{{}}},
		map[string]interface{}{"origin": &point{}, "name": "m", "corners": []*point{{}, {}}},
		[]*point{{}, {X: 2}, {}},
	}
	for _, doc := range docs {
		generic, err := normalise(doc)
		if err != nil {
			continue
		}
		for _, e := range []string{"origin || name", "!origin", "origin && name", "corners[?@] | length(@)", "corners[0] || corners[1]", "corners[?@].label", "[origin][?@]", "byval || name", "!byval", "vals[?@] | length(@)",
			"origin == `null`", "not_null(origin, name)", "corners[*] | length(@)", "[?@] | length(@)", "[0] || [1]", "![0]", "origin.label || 'none'", "origin.done || origin.x", "corners[?!@]", "[origin, byval][?@] | length(@)"} {
			r.mark("zero-structs", e, generic)
			og := observeSearch(e, generic)
			od := observeSearch(e, doc)
			r.count("zerostruct:" + od.Kind)
			if od.Kind == "panic" {
				r.violate("zero-structs", e, generic, "panic on a document of Go structs"+describeGo(doc), od.Msg)
				continue
			}
			if od.Kind == "val" && og.Kind == "val" {
				nd, err := normalise(od.Value)
				if err != nil || !jsonEqual(nd, og.Value) {
					b, _ := json.Marshal(nd)
					r.violate("zero-structs", e, generic, "result on Go structs differs from the result on the equivalent generic document", "structs: "+string(b)+" generic: "+og.String()+describeGo(doc))
				}
			} else if od.Kind != og.Kind {
				r.violate("zero-structs", e, generic, "outcome on Go structs differs from the outcome on the equivalent generic document", od.String()+" vs "+og.String()+describeGo(doc))
			}
		}
	}
}

// one compiled expression whose call sites of a variadic function differ in arity, over documents that
// select one site or the other; and the same failing expression parsed twice by one Parser (C13)
func famHistArity(r *Run) {
	type hc struct {
		text string
		docs []string
	}
	for _, c := range []hc{
		{"not_null(a) || not_null(b, c, d)", []string{`{"a":1}`, `{"d":4}`, `{"a":1}`, `{"c":3}`, `{"a":2}`}},
		{"merge(a) || merge(a, b, c)", []string{`{"a":{"x":1}}`, `{"a":{},"b":{"y":1},"c":{"z":2}}`, `{"a":{"x":1}}`}},
		{"[not_null(a, b, c, d), not_null(a)]", []string{`{"d":1}`, `{"a":2}`}},
		{"a && not_null(b, c) || not_null(d)", []string{`{"a":1,"c":2}`, `{"d":3}`, `{"a":1,"b":1}`, `{"d":5}`}},
		{"rows[*].not_null(x, y, z) | [not_null(@[0])]", []string{`{"rows":[{"z":1}]}`, `{"rows":[{"x":2}]}`}},
		{"merge(o, p, q).k || merge(o).k", []string{`{"o":{"k":0},"p":{},"q":{"k":1}}`, `{"o":{"k":5},"p":{},"q":{}}`}},
	} {
		jp, err := jmespath.Compile(c.text)
		if err != nil {
			continue
		}
		for i, dt := range c.docs {
			var doc interface{}
			json.Unmarshal([]byte(dt), &doc)
			r.mark("G-hist-arity", c.text, doc)
			got := obsOfSearchCompiled(jp, deepCopy(doc))
			fresh, _ := jmespath.Compile(c.text)
			want := obsOfSearchCompiled(fresh, deepCopy(doc))
			if canon(got, false) != canon(want, false) {
				r.violate("G-hist-arity", c.text, doc, fmt.Sprintf("call %d on a used compiled expression differs from a fresh one", i+1), "got "+got.String()+" want "+want.String())
				break
			}
			r.addSearch("G-hist-arity", c.text, doc, "exact")
		}
	}
	// every expression twice (and a third time after another one) on one Parser
	p := jmespath.NewParser()
	for _, e := range []string{"foo bar", "a.b]", "a b", "a.b.c d", "foo[0] bar", "length(a) b", "a || b c", "'x' 'y'", "`1` `2`", "a)", "[a] ]", "{a: b} }", "a, b", "foo bar", "a", "a b", "a", "a.b]", "a.b", "*.x y", "@ @", "a[?b] c", "a | b c"} {
		for k := 0; k < 3; k++ {
			r.mark("G-parser-twice", e, nil)
			a1 := parseObs(p, e)
			a2 := parseObs(jmespath.NewParser(), e)
			if a1.coq() != a2.coq() {
				r.violate("G-parser-twice", e, nil, fmt.Sprintf("Parse %d of the same expression on one Parser differs from a fresh Parser", k+1), "reused="+a1.Kind+" "+a1.Msg+" fresh="+a2.Kind+" "+a2.Msg)
				break
			}
		}
		r.addAst("G-parser-twice", e, true)
	}
}

// concurrent sort_by / max_by / map on one compiled expression while one goroutine keeps making a call that
// fails half-way (a key of another type in a later element), and afterwards (C12)
func famConcAfterError(r *Run) {
	mk := func(n int, bad bool) interface{} {
		a := make([]interface{}, n)
		for i := range a {
			a[i] = map[string]interface{}{"n": float64((i*7919 + 13) % 1000), "s": fmt.Sprintf("k%03d", (i*31)%977), "i": float64(i)}
		}
		if bad {
			a[n/2] = map[string]interface{}{"n": "one", "s": 5.0, "i": float64(n / 2)}
		}
		return a
	}
	for _, text := range []string{"sort_by(@, &n)[*].i", "sort_by(@, &s)[*].i", "max_by(@, &n).i", "min_by(@, &s).i", "map(&abs(n), @)", "sort_by(@, &n) | [0].i", "to_string(sort_by(@, &n)[*].i)", "to_string(@[*].i)"} {
		jp, err := jmespath.Compile(text)
		if err != nil {
			continue
		}
		docs := []interface{}{mk(187, false), mk(263, false), mk(409, false), mk(31, false)}
		badDoc := mk(57, true)
		want := make([]string, len(docs))
		for k, dd := range docs {
			fresh, _ := jmespath.Compile(text)
			want[k] = canon(obsOfSearchCompiled(fresh, deepCopy(dd)), false)
		}
		fresh, _ := jmespath.Compile(text)
		wantBad := canon(obsOfSearchCompiled(fresh, deepCopy(badDoc)), false)
		r.mark("G-conc-after-error", text, nil)
		var wg sync.WaitGroup
		var mu sync.Mutex
		bad := ""
		for gi := 0; gi < 8; gi++ {
			wg.Add(1)
			go func(gi int) {
				defer wg.Done()
				for c := 0; c < r.n(40, 300); c++ {
					var got, w string
					if gi == 0 {
						got, w = canon(obsOfSearchCompiled(jp, badDoc), false), wantBad
					} else {
						k := (gi + c) % len(docs)
						got, w = canon(obsOfSearchCompiled(jp, docs[k]), false), want[k]
					}
					if got != w {
						mu.Lock()
						if bad == "" {
							if len(got) > 200 {
								got = got[:200] + "..."
							}
							if len(w) > 200 {
								w = w[:200] + "..."
							}
							bad = fmt.Sprintf("goroutine %d call %d: got %s, alone it returns %s", gi, c, got, w)
						}
						mu.Unlock()
						return
					}
				}
			}(gi)
		}
		wg.Wait()
		if bad != "" {
			r.violate("G-conc-after-error", text, nil, "a concurrent call returned something else than the same call made alone (one goroutine keeps making a call that fails half-way)", bad)
		}
		r.count("conc:after-error")
	}
}

// jpgo: input objects that repeat a key (valid JSON: the last one counts)
func cliDuplicateKeys() (inputs []string, exprs []string) {
	inputs = []string{`{"a":1,"a":2}`, `{"a":{"b":1,"b":2},"a":{"b":3}}`, `[{"k":1,"k":null}]`, `{"a":1,"b":2,"a":[1,2]}`, `{"":1,"":2}`, "{\"a\":1,\n\"a\":\"x\"}"}
	exprs = []string{"a", "@", "a.b", "[0].k", "length(@)", "\"\""}
	return
}

package main

// Families added after the second round of seeded changes: histories over typed
// documents, long parser histories, spare-capacity snapshots, typed-slice twins of
// the slice windows, invalid UTF-8 in function arguments, number spellings for
// to_number, several escaped string tokens in one expression, ungrammatical
// literal contents and misplaced expression references.

import (
	"encoding/json"
	"fmt"
	"reflect"
	"strings"
	"sync"

	jmespath "github.com/jmespath/go-jmespath"
)

// ---- spare capacity (C06) ----

type spareRec struct {
	full []interface{}
	n    int
}

const spareSentinel = "\x00spare-capacity-sentinel"

// spareDoc rebuilds every list of a document as the prefix of a longer array whose
// tail holds a sentinel, so that a write behind len() (an append into storage the
// document owns) is seen.  With alias, a second list sharing the storage of the
// first list found is added under "alias_of_first".
func spareDoc(v interface{}, recs *[]spareRec) interface{} {
	switch x := v.(type) {
	case []interface{}:
		full := make([]interface{}, len(x)+3)
		for i, e := range x {
			full[i] = spareDoc(e, recs)
		}
		for i := len(x); i < len(full); i++ {
			full[i] = spareSentinel
		}
		*recs = append(*recs, spareRec{full, len(x)})
		return full[:len(x)]
	case map[string]interface{}:
		m := map[string]interface{}{}
		for k, e := range x {
			m[k] = spareDoc(e, recs)
		}
		return m
	}
	return v
}

func spareIntact(recs []spareRec) (bool, string) {
	for _, rc := range recs {
		for i := rc.n; i < len(rc.full); i++ {
			if s, ok := rc.full[i].(string); !ok || s != spareSentinel {
				b, _ := json.Marshal(rc.full[:rc.n])
				return false, fmt.Sprintf("storage behind the end of the list %s was written: slot %d now holds %v", b, i, rc.full[i])
			}
		}
	}
	return true, ""
}

func famC06extra(r *Run) {
	feat := Features{Proj: true, Logic: true, Funcs: true, BadCalls: true, Paren: true}
	g := &Gen{rng: r.rng, feat: feat}
	for i := 0; i < r.n(1500, 20000); i++ {
		plain := g.rootDoc()
		var recs []spareRec
		doc := spareDoc(plain, &recs)
		// a second list sharing the storage of an existing one
		if m, ok := doc.(map[string]interface{}); ok && len(recs) > 0 && r.rng.Intn(2) == 0 {
			rc := recs[r.rng.Intn(len(recs))]
			if rc.n > 1 {
				m["alias_of_first"] = rc.full[:rc.n-1]
			}
		}
		var t *Ex
		c := g.call(3, plain)
		// a key that the elements of the call's result have
		rhs := g.expr(0, 2, hIdent, nil)
		if lst, ok := evalOn(c, plain).([]interface{}); ok {
			for _, e := range lst {
				if m, ok := e.(map[string]interface{}); ok && len(m) > 0 {
					rhs = &Ex{K: "ident", Name: sortedKeys(m)[r.rng.Intn(len(m))]}
					break
				}
			}
		}
		switch r.rng.Intn(10) {
		case 0, 8:
			t = &Ex{K: "listproj", L: c, R: Rhs{1, rhs}}
		case 9:
			one := int64(1)
			t = &Ex{K: "slice", L: c, A: &one, R: Rhs{1, rhs}}
		case 1:
			t = &Ex{K: "flatten", L: c}
		case 2:
			t = &Ex{K: "filter", L: c, Cond: &Ex{K: "current"}, R: Rhs{1, rhs}}
		case 3:
			t = &Ex{K: "flatten", L: &Ex{K: "mslist", Es: []*Ex{g.expr(0, 2, hAny, plain), g.expr(0, 2, hAny, plain)}}}
		case 4:
			t = &Ex{K: "flatten", L: g.expr(0, 3, hAny, plain)}
		default:
			t = g.expr(0, 4, hAny, plain)
		}
		text := t.text(textOpts{})
		before := deepCopy(doc)
		r.mark("G-spare", text, before)
		o := observeSearch(text, doc)
		if o.Kind == "panic" {
			continue
		}
		if !jsonEqual(before, doc) {
			b, _ := json.Marshal(doc)
			r.violate("G-spare", text, before, "document modified by Search", "after: "+string(b))
		} else if ok, why := spareIntact(recs); !ok {
			r.violate("G-spare", text, before, "document storage modified by Search", why)
		}
		r.count("spare:" + o.Kind)
	}
}

// ---- typed-slice twins of a slice expression (C08, C18) ----
func (r *Run) typedSliceTwins(family, text string, arr []interface{}) {
	want := observeSearch(text, arr)
	ints := make([]int, len(arr))
	flts := make([]float64, len(arr))
	strs := make([]string, len(arr))
	type rec struct {
		V float64 `json:"v"`
	}
	recs := make([]rec, len(arr))
	ptrs := make([]*rec, len(arr))
	for i := range arr {
		f, _ := arr[i].(float64)
		ints[i], flts[i], strs[i], recs[i], ptrs[i] = int(f), f, fmt.Sprint(f), rec{f}, &rec{f}
	}
	for _, twin := range []interface{}{ints, flts, strs, recs, ptrs} {
		got := observeSearch(text, twin)
		r.count("typed-slice:" + got.Kind)
		if got.Kind == "panic" {
			r.violate(family, text, arr, "panic on a typed slice ("+reflect.TypeOf(twin).String()+")", got.Msg)
			continue
		}
		if got.Kind != want.Kind {
			r.violate(family, text, arr, "outcome on a typed slice ("+reflect.TypeOf(twin).String()+") differs from the generic array", got.String()+" vs "+want.String())
			continue
		}
		if got.Kind == "val" {
			// same positions selected: compare lengths and, for the numeric twins, the values
			gl, _ := normalise(got.Value)
			wl := want.Value
			ga, ok1 := gl.([]interface{})
			wa, ok2 := wl.([]interface{})
			if ok1 != ok2 || (ok1 && len(ga) != len(wa)) {
				r.violate(family, text, arr, "a typed slice ("+reflect.TypeOf(twin).String()+") selects other elements than the generic array", got.String()+" vs "+want.String())
				continue
			}
			if _, isF := twin.([]float64); isF && !jsonEqual(gl, wl) {
				r.violate(family, text, arr, "a typed slice ([]float64) selects other elements than the generic array", got.String()+" vs "+want.String())
			}
		}
	}
}

// ---- histories over documents of different Go types; long parser histories (C13) ----
func famC13extra(r *Run) {
	famC13targeted(r)
	g := &Gen{rng: r.rng, feat: Features{Proj: true, Logic: true, Paren: true, OrderFree: true}}
	exprs := []string{"name", "id", "[name, id]", "{a: name, b: id, c: tag}", "inner.name", "l[*].name", "lp[*].name", "deep.name", "deep.deep.id",
		"foo", "bar", "sub.foo", "lp[*].foo", "lp[*].sub.bar", "p.sub.foo", "l[0].bar", "name || id", "tag", "_x", "x", "length(l)", "l[?name].name", "lp[0]"}
	for i := 0; i < r.n(150, 2500); i++ {
		text := exprs[r.rng.Intn(len(exprs))]
		jp, err := jmespath.Compile(text)
		if err != nil {
			continue
		}
		var docs []interface{}
		docs = append(docs, g.fieldDocs()...)
		pd, pg := g.ptrSliceDoc()
		docs = append(docs, pd, pg)
		for k := 0; k < 4; k++ {
			d := docs[r.rng.Intn(len(docs))]
			if gen, err := normalise(d); err == nil {
				docs = append(docs, gen)
			}
		}
		var hist []string
		for k := 0; k < 3+r.rng.Intn(10); k++ {
			d := docs[r.rng.Intn(len(docs))]
			hist = append(hist, reflect.TypeOf(d).String())
			r.mark("G-hist-types", text, nil)
			got := obsOfSearchCompiled(jp, d)
			fresh, _ := jmespath.Compile(text)
			want := obsOfSearchCompiled(fresh, d)
			gs, ws := canonGo(got), canonGo(want)
			if gs != ws {
				r.violate("G-hist-types", text, nil, fmt.Sprintf("call %d on a used compiled expression differs from a fresh one", k+1),
					"document types searched so far: "+strings.Join(hist, ", ")+"; got "+gs+" want "+ws)
				break
			}
		}
		r.count("hist:typed-docs")
	}
	// long histories on one Parser, mostly failures that abandon the parse at some depth
	open := []string{"(", "[", "{a: ", "!", "f(", "a.", "a[?", "a || ", "[a, ", "f(a, &"}
	for i := 0; i < r.n(3, 20); i++ {
		p := jmespath.NewParser()
		n := 300 + r.rng.Intn(400)
		for k := 0; k < n; k++ {
			var e string
			if k%50 == 49 || k == n-1 {
				// a valid, deeply nested expression
				d := 10 + r.rng.Intn(50)
				e = strings.Repeat("(", d) + "a" + strings.Repeat(")", d)
				if r.rng.Intn(2) == 0 {
					e = strings.Repeat("[", d) + "a" + strings.Repeat("]", d)
				}
			} else {
				var b strings.Builder
				for j := 0; j < 1+r.rng.Intn(6); j++ {
					b.WriteString(open[r.rng.Intn(len(open))])
				}
				if r.rng.Intn(3) == 0 {
					b.WriteString("a")
				}
				e = b.String()
			}
			r.mark("G-parser-long", e, nil)
			a1 := parseObs(p, e)
			a2 := parseObs(jmespath.NewParser(), e)
			if a1.coq() != a2.coq() {
				r.violate("G-parser-long", e, nil, fmt.Sprintf("Parse %d on a reused Parser differs from a fresh Parser", k+1),
					fmt.Sprintf("after %d parses on the same Parser, most of them failing; reused=%s fresh=%s", k, a1.Kind+" "+a1.Msg, a2.Kind+" "+a2.Msg))
				break
			}
		}
		r.count("hist:long-parser")
	}
}

// calls that combine, reorder or collect, repeated on one document and on literals
// held by one compiled expression: every call must answer like a fresh one
func famC13targeted(r *Run) {
	var shared interface{}
	json.Unmarshal([]byte(`{"people":[{"name":"carol","k":3},{"name":"alice","k":1},{"name":"dave","k":4},{"name":"bob","k":2}],
	 "nums":[3,1,2],"s":["q","p","r"],"o":{"b":1,"a":2},"o2":{"c":3,"b":9},"nested":[[3,1],[2]],"e":{}}`), &shared)
	pristine := deepCopy(shared)
	exprs := []string{
		"merge(o, o2)", "merge(o2, o)", "merge(o, o2, o)", "merge(e, o)", "merge(o, e)", "[merge(o, o2), o]", "merge(o, o2) | [@, @]",
		"merge(`{\"a\": 1}`, o)", "merge(`{\"a\": 1}`, `{\"b\": 2}`)", "merge(`{}`, o2)", "merge(@, o2).o", "merge(o, {x: nums})",
		"sort_by(people, &name)[*].name", "sort_by(people, &k)[*].k", "sort(s)", "sort(nums)", "reverse(people)[*].k", "reverse(s)",
		"max_by(people, &k).name", "min_by(people, &name).k", "map(&name, people)", "nested[]", "sort_by(nested, &@[0])", "to_array(o)",
		"to_array(nums)", "not_null(people, nums)[0]", "people[?k > `1`] | sort_by(@, &name)[*].k", "sort(`[3, 1, 2]`)", "reverse(`[1, 2, 3]`)",
		"sort_by(`[{\"a\": 2}, {\"a\": 1}]`, &a)", "values(o)", "keys(o2)", "join(',', s)", "[nums, nums][]", "people[*].name | sort(@)",
	}
	for _, text := range exprs {
		jp, err := jmespath.Compile(text)
		if err != nil {
			continue
		}
		perm := featuresOf(text).orderExposing
		for k := 0; k < r.n(4, 12); k++ {
			r.mark("G-hist-targeted", text, pristine)
			got := obsOfSearchCompiled(jp, shared)
			fresh, _ := jmespath.Compile(text)
			want := obsOfSearchCompiled(fresh, deepCopy(pristine))
			if canonFor(got, perm, text, pristine) != canonFor(want, perm, text, pristine) {
				r.violate("G-hist-targeted", text, pristine, fmt.Sprintf("call %d on a used compiled expression and a used document differs from a fresh one", k+1),
					"got "+got.String()+" want "+want.String())
				break
			}
			if !jsonEqual(shared, pristine) {
				b, _ := json.Marshal(shared)
				r.violate("G-hist-targeted", text, pristine, fmt.Sprintf("call %d left the document changed for the calls that follow", k+1), "document now: "+string(b))
				shared = deepCopy(pristine)
				break
			}
		}
		r.count("hist:targeted")
		r.addSearch("G-hist-targeted", text, deepCopy(pristine), modeFor(text, pristine))
	}
}

func canonGo(o Obs) string {
	if o.Kind != "val" {
		return o.Kind
	}
	n, err := normalise(o.Value)
	if err != nil {
		return "unserialisable"
	}
	b, _ := json.Marshal(n)
	return "value " + string(b)
}

// ---- concurrent searches on documents of Go structs (C12) ----
func famC12extra(r *Run) {
	famC12lex(r)
	g := &Gen{rng: r.rng}
	exprs := []string{"name", "[name, id]", "lp[*].foo", "lp[*].sub.bar", "p.sub.foo", "l[*].bar", "{a: foo, b: bar, c: name}", "inner.name", "deep.deep.name", "l[?name].name", "strs[0]", "nums"}
	for i := 0; i < r.n(12, 120); i++ {
		text := exprs[i%len(exprs)]
		jp, err := jmespath.Compile(text)
		if err != nil {
			continue
		}
		docs := g.fieldDocs()
		pd, _ := g.ptrSliceDoc()
		docs = append(docs, pd)
		want := make([]string, len(docs))
		for k, d := range docs {
			fresh, _ := jmespath.Compile(text)
			want[k] = canonGo(obsOfSearchCompiled(fresh, d))
		}
		r.mark("G-conc-structs", text, nil)
		var wg sync.WaitGroup
		var mu sync.Mutex
		bad := ""
		for gi := 0; gi < 8; gi++ {
			wg.Add(1)
			go func(gi int) {
				defer wg.Done()
				for c := 0; c < 40; c++ {
					k := (gi*7 + c) % len(docs)
					if s := canonGo(obsOfSearchCompiled(jp, docs[k])); s != want[k] {
						mu.Lock()
						if bad == "" {
							bad = fmt.Sprintf("goroutine %d call %d on a %T: got %s, alone it returns %s", gi, c, docs[k], s, want[k])
						}
						mu.Unlock()
						return
					}
				}
			}(gi)
		}
		wg.Wait()
		if bad != "" {
			r.violate("G-conc-structs", text, nil, "a concurrent call returned something else than the same call made alone", bad)
		}
		r.count("conc:struct-docs")
	}
}

// expressions with string tokens compiled by several goroutines while others make
// calls that fail in the middle of a token
func famC12lex(r *Run) {
	exprs := []string{"'ok'", "name == 'alice'", "['a', 'b\\'c']", "\"k\"", "`\"lit\"`", "a || 'dflt'", "'p' | 'q'", "[?n == 'x\\'y'].n", "{a: 'v', b: `\"w\\`\"`}", "'x'"}
	doc := map[string]interface{}{"name": "alice", "k": "kv", "a": nil}
	want := make([]string, len(exprs))
	for k, e := range exprs {
		want[k] = canon(observeSearch(e, doc), false)
	}
	for round := 0; round < r.n(6, 60); round++ {
		var wg sync.WaitGroup
		var mu sync.Mutex
		bad, badExpr := "", ""
		for gi := 0; gi < 8; gi++ {
			wg.Add(1)
			go func(gi int) {
				defer wg.Done()
				for c := 0; c < 60; c++ {
					if (gi+c)%3 == 0 {
						runPoison(poisonPool[(gi*31+c)%len(poisonPool)])
						continue
					}
					k := (gi*7 + c) % len(exprs)
					if s := canon(observeSearch(exprs[k], doc), false); s != want[k] {
						mu.Lock()
						if bad == "" {
							bad = fmt.Sprintf("goroutine %d call %d: got %s, alone it returns %s (other goroutines were making calls that fail inside a string token)", gi, c, s, want[k])
							badExpr = exprs[k]
						}
						mu.Unlock()
						return
					}
				}
			}(gi)
		}
		wg.Wait()
		if bad != "" {
			r.violate("G-conc-lex", badExpr, doc, "a concurrent call returned something else than the same call made alone", bad)
			break
		}
		r.count("conc:lex-rounds")
	}
}

// ---- invalid UTF-8 in raw strings handed to every function (C05) ----
var badUTF8 = []string{"\xff", "abc\x80def", "\xe4\xb8", "\xc0\x80", "\xed\xa0\x80", "\xf4\x90\x80\x80", "a\xffb\xfe", "\xf0\x9f", "é\xe9", "\x80\x80\x80"}

func famC05extra(r *Run) {
	for _, s := range fsigs {
		for _, b := range badUTF8 {
			raw := "'" + b + "'"
			for k, e := range []string{
				s.name + "(" + raw + ")", s.name + "(" + raw + ", " + raw + ")", s.name + "(" + raw + ", 'a')", s.name + "('a', " + raw + ")",
				s.name + "([" + raw + ", 'b'])", s.name + "(', ', [" + raw + ", " + raw + "])", s.name + "([" + raw + "], &@)", s.name + "(&@, [" + raw + "])",
			} {
				// the one-argument form always runs; the others are sampled in the quick tier
				if r.tier != "thorough" && k != 0 && r.rng.Intn(3) != 0 {
					continue
				}
				r.mark("fun-invalid-utf8", e, nil)
				o := observeSearch(e, nil)
				r.count("badutf8:" + o.Kind)
				if o.Kind == "panic" {
					r.violate("fun-invalid-utf8", e, nil, "panic", o.Msg)
				}
				r.addSearch("fun-invalid-utf8", e, nil, "exact")
			}
		}
	}
}

// ---- spellings of numbers handed to to_number (C09, C16) ----
func famToNumber(r *Run) {
	bodies := []string{"inf", "Inf", "INF", "infinity", "Infinity", "INFINITY", "iNf", "nan", "NaN", "NAN", "1e999", "1e-999", "0", "00", "1", "1.", "1.5", ".5",
		"1e3", "1E3", "1e+3", "1e-3", "1e", "e3", "1e3.5", "1 ", " 1", "1\n", "", ".", "1..2", "1e309", "1.7976931348623157e308", "1e308", "2e308",
		"4.9e-324", "1e-400", "9007199254740993", "0.1", "123456789012345678901234567890", "12abc", "0.0", "1,5", "١"}
	for _, sign := range []string{"", "+", "-", "--", "+-"} {
		for _, b := range bodies {
			s := sign + b
			if strings.ContainsAny(s, "'\\") {
				continue
			}
			for _, e := range []string{"to_number('" + s + "')", "[to_number('" + s + "')]", "to_number(s)"} {
				var doc interface{}
				if strings.HasSuffix(e, "(s)") {
					doc = map[string]interface{}{"s": s}
				}
				r.addSearch("to_number-spellings", e, doc, "exact")
			}
		}
	}
}

// ---- several escaped string tokens in one expression (C14) ----
func famC14extra(r *Run) {
	for i := 0; i < r.n(300, 5000); i++ {
		n := 2 + r.rng.Intn(4)
		var parts []string
		var want []interface{}
		for k := 0; k < n; k++ {
			s := r.randomString()
			switch r.rng.Intn(3) {
			case 0:
				if strings.HasSuffix(s, "\\") || strings.Contains(s, "\\'") {
					s = strings.ReplaceAll(s, "\\", "/")
				}
				parts = append(parts, "'"+strings.ReplaceAll(s, "'", "\\'")+"'")
				want = append(want, s)
			case 1:
				b, _ := json.Marshal(s)
				parts = append(parts, "`"+strings.ReplaceAll(string(b), "`", "\\`")+"`")
				var back interface{}
				json.Unmarshal(b, &back)
				want = append(want, back)
			default:
				b, _ := json.Marshal(s)
				if s == "" {
					parts = append(parts, "'x'")
					want = append(want, "x")
					continue
				}
				parts = append(parts, string(b))
				var back string
				json.Unmarshal(b, &back)
				want = append(want, "member:"+back)
			}
		}
		text := "[" + strings.Join(parts, ", ") + "]"
		doc := map[string]interface{}{}
		for _, w := range want {
			if s, ok := w.(string); ok && strings.HasPrefix(s, "member:") {
				doc[strings.TrimPrefix(s, "member:")] = s
			}
		}
		r.mark("G-multi-strings", text, doc)
		o := observeSearch(text, doc)
		if o.Kind != "val" || !jsonEqual(o.Value, want) {
			wb, _ := json.Marshal(want)
			r.violate("G-multi-strings", text, doc, "a list of raw strings, literals and quoted identifiers does not denote the written values", "library: "+o.String()+" written: "+string(wb))
		}
		r.addSearch("G-multi-strings", text, doc, "exact")
	}
}

// ---- ungrammatical literal contents and misplaced expression references (C04) ----
func famC04extra(r *Run) {
	vals := []string{"1", "true", "null", "\"a\"", "[1, 2]", "{\"a\": 1}", "1.5e3", "\"\"", "[]", "{}"}
	junk := []string{" 2", "x", " \"b\"", "]", "}", ",", " ,1", " true", ":", " null", "[", "{", "\"", " 1 2", "//c", "\x00"}
	ctx := []string{"%s", "foo[?bar == %s]", "length(%s)", "[%s, a]", "{k: %s}", "a || %s", "%s | @"}
	for _, v := range vals {
		for _, j := range junk {
			for _, c := range ctx {
				if r.tier != "thorough" && r.rng.Intn(4) != 0 {
					continue
				}
				for _, lit := range []string{"`" + v + j + "`", "`" + j + v + "`", "`" + v + "`"} {
					e := fmt.Sprintf(c, lit)
					r.addAst("literal-contents", e, true)
				}
			}
		}
	}
	// "&" anywhere but as a whole function argument
	inner := []string{"[&a]", "!&a", "(&a)", "a || &a", "&a || a", "{k: &a}", "x[?&a]", "a == &b", "a.&b", "&a.b | c", "[a, &b]", "f(&a)", "&&a", "& a", "a | &b", "*.&a", "[*].&a", "`1` < &a", "&a[0]", "[&a][0]", "-&a"}
	funcs := []string{"length", "sort_by", "max_by", "map", "abs", "to_array", "not_null", "contains", "keys", "nosuch"}
	for _, f := range funcs {
		for _, in := range inner {
			for _, e := range []string{f + "(" + in + ")", f + "(a, " + in + ")", f + "(" + in + ", a)", f + "(&a, " + in + ")", in, "[" + f + "(" + in + ")]", f + "(g(" + in + "))"} {
				if r.tier != "thorough" && r.rng.Intn(3) != 0 {
					continue
				}
				r.addAst("expref-position", e, true)
				r.addSearch("expref-position", e, map[string]interface{}{"a": []interface{}{1.0, 2.0}, "b": 1.0}, "exact")
			}
		}
	}
}

package main

// Emission of Go values, AST nodes, tokens and observations as Coq terms for
// the files that Run/Checker.v evaluates.

import (
	"fmt"
	"math"
	"sort"
	"strconv"
	"strings"

	jmespath "github.com/jmespath/go-jmespath"
)

func coqBytes(s string) string {
	const hexd = "0123456789abcdef"
	b := make([]byte, 0, 2*len(s)+6)
	b = append(b, '(', 'h', 'x', ' ', '"')
	for i := 0; i < len(s); i++ {
		b = append(b, hexd[s[i]>>4], hexd[s[i]&15])
	}
	b = append(b, '"', ')')
	return string(b)
}

func coqZ(z int64) string {
	if z < 0 {
		return "(" + strconv.FormatInt(z, 10) + ")"
	}
	return strconv.FormatInt(z, 10)
}

func coqBool(b bool) string {
	if b {
		return "true"
	}
	return "false"
}

// coqFloat writes a float64 exactly: sign, integer mantissa, binary exponent.
func coqFloat(f float64) string {
	if math.IsNaN(f) {
		return "(N_ f_nan)"
	}
	if math.IsInf(f, 0) {
		return "(N_ (f_inf " + coqBool(f < 0) + "))"
	}
	neg := math.Signbit(f)
	if f == 0 {
		return "(F " + coqBool(neg) + " 0 0)"
	}
	fr, ex := math.Frexp(math.Abs(f)) // abs = fr * 2^ex, fr in [0.5,1)
	m := int64(math.Ldexp(fr, 53))    // exact: 53-bit integer
	e := ex - 53
	for m%2 == 0 {
		m /= 2
		e++
	}
	return fmt.Sprintf("(F %s %d %s)", coqBool(neg), m, coqZ(int64(e)))
}

// coqValue renders a JSON-like Go value. ok=false when the value contains
// something the model's value type cannot express (nil slice or map, a Go type
// outside the JSON set): such a result is reported as ONonJson.
func coqValue(v interface{}) (string, bool) {
	switch x := v.(type) {
	case nil:
		return "jNull", true
	case bool:
		return "(jB " + coqBool(x) + ")", true
	case float64:
		return coqFloat(x), true
	case string:
		return "(jS " + coqBytes(x) + ")", true
	case []interface{}:
		if x == nil {
			return "", false
		}
		parts := make([]string, 0, len(x))
		for _, e := range x {
			s, ok := coqValue(e)
			if !ok {
				return "", false
			}
			parts = append(parts, s)
		}
		if len(parts) == 0 {
			return "(jA vnil)", true
		}
		return "(jA [" + strings.Join(parts, "; ") + "])", true
	case map[string]interface{}:
		if x == nil {
			return "", false
		}
		keys := make([]string, 0, len(x))
		for k := range x {
			keys = append(keys, k)
		}
		sort.Strings(keys)
		parts := make([]string, 0, len(x))
		for _, k := range keys {
			s, ok := coqValue(x[k])
			if !ok {
				return "", false
			}
			parts = append(parts, "kv "+coqBytes(k)+" "+s)
		}
		if len(parts) == 0 {
			return "(jO onil)", true
		}
		return "(jO [" + strings.Join(parts, "; ") + "])", true
	default:
		if n, ok := jmespath.VerifExpRef(v); ok {
			s, ok2 := coqNode(n)
			if !ok2 {
				return "", false
			}
			return "(jX " + s + ")", true
		}
		return "", false
	}
}

func coqOptInt(p *int) string {
	if p == nil {
		return "noZ"
	}
	return "(soZ " + coqZ(int64(*p)) + ")"
}

func coqNode(n jmespath.VerifNode) (string, bool) {
	var val string
	switch x := n.Value.(type) {
	case nil:
		val = "nvNone"
	case jmespath.VerifTokType:
		val = "(nvTok " + x.TypeName + ")"
	case int:
		val = "(nvInt " + coqZ(int64(x)) + ")"
	case []*int:
		if len(x) != 3 {
			return "", false
		}
		val = "(nvSlice " + coqOptInt(x[0]) + " " + coqOptInt(x[1]) + " " + coqOptInt(x[2]) + ")"
	case string:
		if n.TypeName == "ASTLiteral" {
			val = "(nvJson (jS " + coqBytes(x) + "))"
		} else {
			val = "(nvStr " + coqBytes(x) + ")"
		}
	default:
		if n.TypeName != "ASTLiteral" {
			return "", false
		}
		s, ok := coqValue(x)
		if !ok {
			return "", false
		}
		val = "(nvJson " + s + ")"
	}
	if n.TypeName == "ASTLiteral" && n.Value == nil {
		val = "(nvJson jNull)"
	}
	parts := make([]string, 0, len(n.Children))
	for _, c := range n.Children {
		s, ok := coqNode(c)
		if !ok {
			return "", false
		}
		parts = append(parts, s)
	}
	return "(nd " + n.TypeName + " " + val + " [" + strings.Join(parts, "; ") + "])", true
}

func coqTokens(ts []jmespath.VerifToken) string {
	parts := make([]string, 0, len(ts))
	for _, t := range ts {
		parts = append(parts, fmt.Sprintf("T %s %s %s %s", t.TypeName, coqBytes(t.Value), coqZ(int64(t.Position)), coqZ(int64(t.Length))))
	}
	return "[" + strings.Join(parts, "; ") + "]"
}

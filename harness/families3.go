package main

// C12 (concurrent use; this family is run from a binary built with -race),
// C19 (the jpgo command), C06 extras.

import (
	"bytes"
	"encoding/json"
	"fmt"
	"io/ioutil"
	"os"
	"os/exec"
	"path/filepath"
	"strings"
	"sync"

	jmespath "github.com/jmespath/go-jmespath"
)

func init() {
	families["C12"] = famC12
	families["C19"] = famC19
}

// ---- C12 ----
func famC12(r *Run) {
	g := &Gen{rng: r.rng, feat: Features{Proj: true, Logic: true, Funcs: true, BadCalls: true, Paren: true}}
	nexpr := r.n(250, 4000)
	goroutines := 8
	calls := r.n(25, 200)
	for i := 0; i < nexpr; i++ {
		root := g.rootDoc()
		var t *Ex
		switch r.rng.Intn(4) {
		case 0:
			// a function applied to (part of) the shared document
			t = g.call(3, root)
		case 1:
			// a function applied to a literal held by the shared AST
			t = &Ex{K: "pipe", L: &Ex{K: "lit", Lit: g.doc(2)}, Rt: g.call(3, g.doc(2))}
		default:
			t = g.expr(0, 4, hAny, root)
		}
		text := t.text(textOpts{})
		perm := featuresOf(text).orderExposing
		jp, err := jmespath.Compile(text)
		if err != nil {
			continue
		}
		docs := []interface{}{root, g.rootDoc()}
		// what each call returns when made alone, on private copies
		want := make([]string, len(docs))
		for k, d := range docs {
			fresh, _ := jmespath.Compile(text)
			want[k] = canonFor(obsOfSearchCompiled(fresh, deepCopy(d)), perm, text, d)
		}
		r.mark("G-conc", text, root)
		var wg sync.WaitGroup
		var mu sync.Mutex
		bad := ""
		for gi := 0; gi < goroutines; gi++ {
			wg.Add(1)
			go func(gi int) {
				defer wg.Done()
				for c := 0; c < calls; c++ {
					k := (gi + c) % len(docs)
					var got Obs
					if (gi+c)%3 == 0 {
						got = observeSearch(text, docs[k]) // the one-shot function, same shared document
					} else {
						got = obsOfSearchCompiled(jp, docs[k])
					}
					if s := canonFor(got, perm, text, docs[k]); s != want[k] {
						mu.Lock()
						if bad == "" {
							bad = fmt.Sprintf("goroutine %d call %d on document %d: got %s, alone it returns %s", gi, c, k, s, want[k])
						}
						mu.Unlock()
						return
					}
				}
			}(gi)
		}
		wg.Wait()
		if bad != "" {
			r.violate("G-conc", text, root, "a concurrent call returned something else than the same call made alone", bad)
		}
		r.count("conc:expressions")
		r.addTree("G-conc", t, text, deepCopy(root), modeFor(text, root))
	}
	// targeted: functions that reorder, merge or collect, applied to parts of one shared
	// document by some goroutines while others read the same parts
	var shared interface{}
	json.Unmarshal([]byte(`{"people":[{"name":"carol","k":3},{"name":"alice","k":1},{"name":"dave","k":4},{"name":"bob","k":2}],
	 "nums":[3,1,2],"s":["q","p","r"],"o":{"b":1,"a":2},"o2":{"c":3},"nested":[[3,1],[2]]}`), &shared)
	pristine := deepCopy(shared)
	pairs := [][2]string{
		{"sort_by(people, &name)[0].name", "people[0].name"}, {"sort_by(people, &k)[0].k", "people[0].k"},
		{"sort(s)", "s[0]"}, {"sort(nums)", "nums"}, {"reverse(people)[0].name", "people[0].name"},
		{"merge(o, o2)", "o"}, {"merge(o2, o)", "o2"}, {"max_by(people, &name).name", "people[*].name"},
		{"min_by(people, &k).k", "people[-1].k"}, {"map(&name, people)", "people[1].name"}, {"nested[]", "nested[0]"},
		{"sort_by(nested, &@[0])", "nested[0][0]"}, {"to_array(o)", "o.a"}, {"not_null(people, nums)", "people[2]"},
		{"people[?k > `1`] | sort_by(@, &name)[*].k", "people[*].k"},
	}
	for _, pr := range pairs {
		var jps [2]*jmespath.JMESPath
		var want [2]string
		ok := true
		for k := 0; k < 2; k++ {
			jp, err := jmespath.Compile(pr[k])
			if err != nil {
				ok = false
				break
			}
			jps[k] = jp
			want[k] = canon(obsOfSearchCompiled(jp, deepCopy(pristine)), false)
		}
		if !ok {
			continue
		}
		r.mark("G-conc-shared", pr[0]+"  ||  "+pr[1], pristine)
		var wg sync.WaitGroup
		var mu sync.Mutex
		bad := ""
		for gi := 0; gi < goroutines; gi++ {
			wg.Add(1)
			go func(gi int) {
				defer wg.Done()
				for c := 0; c < calls; c++ {
					k := (gi + c) % 2
					if s := canon(obsOfSearchCompiled(jps[k], shared), false); s != want[k] {
						mu.Lock()
						if bad == "" {
							bad = fmt.Sprintf("goroutine %d call %d, %s: got %s, alone it returns %s", gi, c, pr[k], s, want[k])
						}
						mu.Unlock()
						return
					}
				}
			}(gi)
		}
		wg.Wait()
		if bad != "" {
			r.violate("G-conc-shared", pr[0]+"  ||  "+pr[1], pristine, "a concurrent call returned something else than the same call made alone", bad)
		}
		if !jsonEqual(shared, pristine) {
			r.violate("G-conc-shared", pr[0], pristine, "the shared document was modified by concurrent Search calls", "")
			shared = deepCopy(pristine)
		}
		r.count("conc:shared-pairs")
		r.addSearch("G-conc-shared", pr[0], deepCopy(pristine), modeFor(pr[0], pristine))
	}
	famC12extra(r)
	famConcFlatten(r)
	famConcAfterError(r)
	famTypedSliceSort(r)
}

// ---- C19 ----
func buildJpgo(out string) (string, error) {
	bin := filepath.Join(out, "jpgo")
	cmd := exec.Command("go", "build", "-o", bin, "./cmd/jpgo")
	cmd.Dir = repoDir
	cmd.Env = append(os.Environ(), "GOFLAGS=-mod=mod", "GOPROXY=off", "GOSUMDB=off", "GOTOOLCHAIN=local")
	b, err := cmd.CombinedOutput()
	if err != nil {
		return "", fmt.Errorf("%v: %s", err, b)
	}
	return bin, nil
}

func runJpgo(bin string, args []string, stdin string) (stdout, stderr string, code int) {
	cmd := exec.Command(bin, args...)
	cmd.Stdin = strings.NewReader(stdin)
	var o, e bytes.Buffer
	cmd.Stdout, cmd.Stderr = &o, &e
	err := cmd.Run()
	code = 0
	if err != nil {
		if ee, ok := err.(*exec.ExitError); ok {
			code = ee.ExitCode()
		} else {
			code = -1
		}
	}
	return o.String(), e.String(), code
}

func famC19(r *Run) {
	dir, err := ioutil.TempDir("", "verif-c19-")
	if err != nil {
		r.violate("setup", "", nil, "cannot create a scratch directory", err.Error())
		return
	}
	defer os.RemoveAll(dir)
	bin, err := buildJpgo(dir)
	if err != nil {
		r.violate("setup", "", nil, "cmd/jpgo does not build", err.Error())
		return
	}
	g := &Gen{rng: r.rng, feat: Features{Proj: true, Logic: true, Funcs: true, BadCalls: true, Paren: true, OrderFree: true}}
	var seeds []string
	for _, c := range loadCompliance() {
		seeds = append(seeds, c.Expr)
	}
	badInputs := []string{"", "{", "[1,", "nul", "{\"a\":}", "1 2", "'x'", "{\"a\":1}}", "\xff", "[1e999]"}
	// strings a printing routine could misread (format verbs, escapes, HTML, line separators)
	cliStrs := []string{"100%", "a%20b%2Fc", "100%% sure", "%s", "%d items", "%v", "%!", "%[1]s", "%%", "tab\there", "<&>", "\u2028", "back\\slash", "%x%y%z", "50%\n"}
	cliKeys := []string{"pct", "cpu%", "k", "%s"}
	for i := 0; i < r.n(260, 5000); i++ {
		doc := g.rootDoc()
		if m, ok := doc.(map[string]interface{}); ok && r.rng.Intn(3) == 0 {
			m[cliKeys[r.rng.Intn(len(cliKeys))]] = cliStrs[r.rng.Intn(len(cliStrs))]
			if r.rng.Intn(2) == 0 {
				m["list"] = []interface{}{cliStrs[r.rng.Intn(len(cliStrs))], map[string]interface{}{cliKeys[r.rng.Intn(len(cliKeys))]: cliStrs[r.rng.Intn(len(cliStrs))]}}
			}
		}
		var expr string
		switch r.rng.Intn(6) {
		case 0:
			expr = r.mutate(seeds[r.rng.Intn(len(seeds))])
		case 1:
			expr = seeds[r.rng.Intn(len(seeds))]
		case 2:
			expr = []string{"@", "*", "list", "list[*]", "[@, list]", "pct", "k", "\"cpu%\"", "\"%s\"", "keys(@)", "list[1]", "to_string(@)", "join('%', [k, pct])"}[r.rng.Intn(13)]
		default:
			expr = g.expr(0, 4, hAny, doc).text(textOpts{})
		}
		if strings.HasPrefix(expr, "-") || expr == "" {
			expr = "@." + expr // the flag package would take it for an option
			if expr == "@." {
				expr = "@"
			}
		}
		var input string
		validInput := true
		if r.rng.Intn(6) == 0 {
			input = badInputs[r.rng.Intn(len(badInputs))]
			validInput = false
		} else {
			var b []byte
			if r.rng.Intn(2) == 0 {
				b, _ = json.MarshalIndent(doc, "", "\t")
			} else {
				b, _ = json.Marshal(doc)
			}
			input = string(b)
		}
		viaFile := r.rng.Intn(2) == 0
		args := []string{expr}
		stdin := input
		if viaFile {
			f := filepath.Join(dir, "in.json")
			ioutil.WriteFile(f, []byte(input), 0o644)
			args = []string{"-input", f, expr}
			stdin = ""
		}
		r.mark("G-cli", expr, doc)
		stdout, stderr, code := runJpgo(bin, args, stdin)
		r.count(fmt.Sprintf("cli:exit%d", code))
		// what the library does on the same input text
		var data interface{}
		inputErr := json.Unmarshal([]byte(input), &data)
		_ = validInput
		var lib Obs
		if inputErr == nil {
			lib = observeSearch(expr, data)
		}
		chn := "stdin"
		if viaFile {
			chn = "-input file"
		}
		desc := fmt.Sprintf("channel=%s input=%q exit=%d stdout=%q stderr=%q", chn, input, code, stdout, stderr)
		ok := inputErr == nil && lib.Kind == "val"
		var want []byte
		if ok {
			var merr error
			want, merr = json.MarshalIndent(lib.Value, "", "  ")
			if merr != nil {
				ok = false
			}
		}
		if ok {
			if code != 0 {
				r.violate("G-cli", expr, doc, "valid expression and input, but jpgo exits with a non-zero status", desc)
			} else if modeFor(expr, data) != "exact" {
				// the result exposes the iteration order of an object, which differs
				// between two processes: compare up to the order of array elements
				var back interface{}
				if err := json.Unmarshal([]byte(stdout), &back); err != nil ||
					canon(Obs{Kind: "val", Value: back}, true) != canon(Obs{Kind: "val", Value: lib.Value}, true) {
					r.violate("G-cli", expr, doc, "jpgo's output does not decode to the library's result (up to object iteration order)", desc)
				}
			} else if stdout != string(want)+"\n" {
				r.violate("G-cli", expr, doc, "jpgo's output is not the JSON serialisation of the library's result", desc+" want="+string(want))
			} else {
				// the printed text decodes to what the serialisation of the library's result decodes to
				// (a raw string with bytes that are not UTF-8 is serialised with U+FFFD by encoding/json,
				// in jpgo and here alike: the comparison is between the two decoded texts)
				var back, wantBack interface{}
				werr := json.Unmarshal(want, &wantBack)
				if err := json.Unmarshal([]byte(stdout), &back); err != nil || werr != nil || !jsonEqual(back, wantBack) {
					r.violate("G-cli", expr, doc, "jpgo's output does not decode to the library's result", desc)
				}
			}
		} else {
			if code == 0 {
				r.violate("G-cli", expr, doc, "invalid expression, invalid input or evaluation error, but jpgo exits with status 0", desc)
			}
			if stdout != "" {
				r.violate("G-cli", expr, doc, "jpgo prints on standard output although the run failed", desc)
			}
		}
		if inputErr == nil {
			r.addSearch("G-cli", expr, data, modeFor(expr, data))
		}
		// the model of run() on the same command line and input bytes (when the
		// result does not expose the iteration order of an object)
		if (inputErr != nil || modeFor(expr, data) == "exact") && modelable(expr, data) {
			in := input
			r.addCli("G-cli-model", []string{expr}, viaFile, &in, code, stdout)
		}
	}
	// documents wrapped in white space that JSON does not allow: invalid input on both channels
	for _, input := range cliNonJSONSpace() {
		for _, viaFile := range []bool{false, true} {
			args := []string{"@"}
			stdin := input
			if viaFile {
				f := filepath.Join(dir, "in.json")
				ioutil.WriteFile(f, []byte(input), 0o644)
				args = []string{"-input", f, "@"}
				stdin = ""
			}
			stdout, stderr, code := runJpgo(bin, args, stdin)
			var data interface{}
			if json.Unmarshal([]byte(input), &data) == nil {
				continue
			}
			if code == 0 || stdout != "" {
				r.violate("G-cli-space", "@", nil, "input that is not JSON (white space JSON does not allow around the document), but jpgo exits with status 0 or prints a result",
					fmt.Sprintf("viaFile=%v input=%q exit=%d stdout=%q stderr=%q", viaFile, input, code, stdout, stderr))
			}
			in := input
			r.addCli("G-cli-model", []string{"@"}, viaFile, &in, code, stdout)
		}
	}
	// integers beyond 2^53 and empty lines inside the input: same answer on both channels, equal to the library's
	{
		inputs, exprs := cliBigAndBlank()
		di, de := cliDuplicateKeys()
		inputs = append(inputs, di...)
		exprs = append(exprs, de...)
		for _, input := range inputs {
			for _, expr := range exprs {
				for _, viaFile := range []bool{false, true} {
					args := []string{expr}
					stdin := input
					if viaFile {
						f := filepath.Join(dir, "in.json")
						ioutil.WriteFile(f, []byte(input), 0o644)
						args = []string{"-input", f, expr}
						stdin = ""
					}
					stdout, stderr, code := runJpgo(bin, args, stdin)
					desc := fmt.Sprintf("viaFile=%v input=%q exit=%d stdout=%q stderr=%q", viaFile, input, code, stdout, stderr)
					var data interface{}
					inputErr := json.Unmarshal([]byte(input), &data)
					ok := false
					var want []byte
					if inputErr == nil {
						if lib := observeSearch(expr, data); lib.Kind == "val" {
							var merr error
							want, merr = json.MarshalIndent(lib.Value, "", "  ")
							ok = merr == nil
						}
					}
					if ok {
						if code != 0 || stdout != string(want)+"\n" {
							r.violate("G-cli-numbers-lines", expr, nil, "jpgo's output is not the JSON serialisation of the library's result on the decoded input", desc+" want="+string(want))
						}
					} else if code == 0 || stdout != "" {
						r.violate("G-cli-numbers-lines", expr, nil, "invalid input or evaluation error, but jpgo exits with status 0 or prints on standard output", desc)
					}
					in := input
					r.addCli("G-cli-model", []string{expr}, viaFile, &in, code, stdout)
				}
			}
		}
	}
	// usage errors and unreadable file
	for _, a := range [][]string{{}, {"a", "b"}, {"-input", filepath.Join(dir, "missing.json"), "a"}} {
		stdout, _, code := runJpgo(bin, a, "{}")
		if code == 0 || stdout != "" {
			r.violate("G-cli", strings.Join(a, " "), nil, "usage error or unreadable file: expected a non-zero status and nothing on standard output", fmt.Sprintf("exit=%d stdout=%q", code, stdout))
		}
		if len(a) == 3 {
			r.addCli("G-cli-model", a[2:], true, nil, code, stdout)
		} else {
			in := "{}"
			r.addCli("G-cli-model", a, false, &in, code, stdout)
		}
	}
}

#!/usr/bin/env python3
"""run_seeded.py [--only id,id] [--checks C01,C02|auto] — applies each seeded change
to /repo, runs the checks, records which raise a violation, and undoes the change.
auto: the check of the property the change is declared to break."""
import json, os, subprocess, sys, glob, time, shutil, tempfile
V = os.path.dirname(os.path.dirname(os.path.abspath(__file__)))
only = None
checks = "auto"
args = sys.argv[1:]
while args:
    a = args.pop(0)
    if a == "--only":
        only = set(args.pop(0).split(","))
    elif a == "--checks":
        checks = args.pop(0)
res = {}
subprocess.check_call(["git", "-C", "/repo", "diff", "--quiet"])
# evidence and replay files describe runs on /repo itself: keep the clean-tree ones
keep = tempfile.mkdtemp(prefix="seeded_keep_", dir=os.path.join(V, "work"))
for sub in ("evidence", "replay"):
    if os.path.isdir(os.path.join(V, sub)):
        shutil.copytree(os.path.join(V, sub), os.path.join(keep, sub))
for d in sorted(glob.glob(os.path.join(V, "seeded", "*"))):
    sid = os.path.basename(d)
    if only and sid not in only:
        continue
    meta = json.load(open(os.path.join(d, "meta.json")))
    props = [meta["breaks_property"]] if checks == "auto" else checks.split(",")
    props += [p for p in meta.get("also_checks", []) if p not in props]
    subprocess.check_call(["git", "-C", "/repo", "apply", os.path.join(d, "patch.diff")])
    try:
        for p in props:
            t = time.time()
            r = subprocess.run([os.path.join(V, "check"), p], cwd=V, stdout=subprocess.PIPE, stderr=subprocess.STDOUT, text=True)
            vio = [l for l in r.stdout.splitlines() if l.startswith("VIOLATION")]
            res.setdefault(sid, {})[p] = {"exit": r.returncode, "violations": len(vio), "first": vio[:1], "s": round(time.time() - t)}
            print(sid, p, "exit", r.returncode, len(vio), "violation line(s)", vio[:1], flush=True)
    finally:
        subprocess.check_call(["git", "-C", "/repo", "checkout", "--", "."])
for sub in ("evidence", "replay"):
    if os.path.isdir(os.path.join(keep, sub)):
        shutil.rmtree(os.path.join(V, sub), ignore_errors=True)
        shutil.copytree(os.path.join(keep, sub), os.path.join(V, sub))
shutil.rmtree(keep, ignore_errors=True)
json.dump(res, open(os.path.join(V, "work", "seeded_results.json"), "w"), indent=1)

#!/usr/bin/env python3
"""gen_seed_table.py — rewrites the table of seeded changes in DESIGN.md (between the
SEED-TABLE markers) from seeded/*/meta.json, seeded/first_run.json (what the machinery did
when it first met each change) and the last full regression (work/seeded_par.json, copied
to seeded/final_run.json so that the record is committed)."""
import json, os, glob, re, shutil, sys
V = os.path.dirname(os.path.dirname(os.path.abspath(__file__)))
first = json.load(open(os.path.join(V, "seeded", "first_run.json")))
src = os.path.join(V, "work", "seeded_par.json")
dst = os.path.join(V, "seeded", "final_run.json")
if os.path.exists(src) and "--keep" not in sys.argv:
    cur = json.load(open(src))
    old = json.load(open(dst)) if os.path.exists(dst) else {}
    old.update(cur)
    json.dump(old, open(dst, "w"), indent=1, sort_keys=True)
final = json.load(open(dst))
rows, n_ok, n_noin, n_miss, n_norun = [], 0, 0, 0, 0
def key(s):
    m = re.match(r"C(\d+)-m(\d+)", s)
    return (0, int(m.group(1)), int(m.group(2))) if m else (1, 0, 0, s)
for d in sorted(glob.glob(os.path.join(V, "seeded", "*", "")), key=lambda p: key(os.path.basename(p.rstrip("/")))):
    sid = os.path.basename(d.rstrip("/"))
    meta = json.load(open(os.path.join(d, "meta.json")))
    summ = (meta.get("summary") or "").replace("|", "\\|").replace("\n", " ")
    if len(summ) > 150:
        summ = summ[:150] + "..."
    res = final.get(sid)
    if not res:
        fin = "not run"; n_norun += 1
    else:
        exits = [x["exit"] for x in res.values()]
        withinput = any(x["exit"] == 1 and "no-failing-input-found" not in " ".join(x["first"]) for x in res.values())
        if withinput:
            fin = "detected with a failing input"; n_ok += 1
        elif 1 in exits:
            fin = "detected, no failing input found"; n_noin += 1
        else:
            fin = "MISSED"; n_miss += 1
    rows.append("| %s | %s | %s | %s | %s |" % (sid, meta["breaks_property"], summ, first.get(sid, "?"), fin))
total = len(rows)
from collections import Counter
fc = Counter(first.get(r.split(" | ")[0].strip("| "), "?") for r in rows)
head = ("Final state (last full regression, `tools/run_seeded_par.py`, every seeded change against the final checks; "
        "per-seed record in `seeded/final_run.json`, first-run record in `seeded/first_run.json`): **%d of %d seeded changes are "
        "reported as VIOLATION with a concrete failing input by the check of their property**%s%s%s. "
        "On first meeting them the machinery had detected %d with an input, %d without an input, and missed %d.\n\n"
        % (n_ok, total,
           ("; %d are reported without a failing input" % n_noin) if n_noin else "",
           ("; %d are missed" % n_miss) if n_miss else "",
           ("; %d were not run" % n_norun) if n_norun else "",
           sum(v for k, v in fc.items() if k.startswith("detected") and "no input" not in k), fc.get("detected, no input", 0), fc.get("missed", 0)))
table = head + "| seeded change | property | what was changed | first run | final |\n|---|---|---|---|---|\n" + "\n".join(rows) + "\n"
p = os.path.join(V, "DESIGN.md")
s = open(p).read()
b, e = "<!-- SEED-TABLE-BEGIN -->\n", "<!-- SEED-TABLE-END -->\n"
if b in s:
    s = s[:s.index(b) + len(b)] + table + s[s.index(e):]
else:
    i = s.index("Final state (`work/seeded_full3.log`")
    j = s.index("\n", s.rindex("| revert-")) + 1
    s = s[:i] + b + table + e + s[j:]
open(p, "w").write(s)
print("table: %d seeds, %d with input, %d no input, %d missed, %d not run" % (total, n_ok, n_noin, n_miss, n_norun))

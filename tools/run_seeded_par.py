#!/usr/bin/env python3
"""run_seeded_par.py [--shards K] [--only id,id] — the regression over all seeded changes,
K shards in parallel.  Each shard works on its own scratch copy of /verif and its own
clone of /repo under /tmp/verif-par/<k>/ (removed at the end), so /repo and /verif
themselves are not touched.  Writes work/seeded_par.log (one line per seed: id, property,
exit status, number of VIOLATION lines, first line, what the first replay file says) and
work/seeded_par.json."""
import json, os, subprocess, sys, glob, time, shutil, threading
V = os.path.dirname(os.path.dirname(os.path.abspath(__file__)))
K, only, seed, tag, SDIR = 4, None, None, "", "seeded"
args = sys.argv[1:]
while args:
    a = args.pop(0)
    if a == "--shards":
        K = int(args.pop(0))
    elif a == "--only":
        only = set(args.pop(0).split(","))
    elif a == "--dir":
        SDIR = args.pop(0)
        tag += "_" + SDIR
    elif a == "--seed":
        seed = args.pop(0)
        tag = "_seed" + seed
ROOT = "/tmp/verif-par" + tag
seeds = [os.path.basename(d) for d in sorted(glob.glob(os.path.join(V, SDIR, "*"))) if os.path.isdir(d)]
if only:
    seeds = [s for s in seeds if s in only]
# longest first would be better; round-robin is good enough
shards = [seeds[i::K] for i in range(K)]
lock = threading.Lock()
res = {}
log = open(os.path.join(V, "work", "seeded_par%s.log" % tag), "w")
env0 = dict(os.environ, GOFLAGS="-mod=mod", GOPROXY="off", GOSUMDB="off", GOTOOLCHAIN="local")
if seed:
    env0["VERIF_SEED"] = seed


def sh(cmd, **kw):
    return subprocess.run(cmd, shell=True, stdout=subprocess.PIPE, stderr=subprocess.STDOUT, text=True, **kw)


def worker(k, ids):
    base = os.path.join(ROOT, str(k))
    shutil.rmtree(base, ignore_errors=True)
    os.makedirs(base)
    v, repo = os.path.join(base, "verif"), os.path.join(base, "repo")
    sh("rsync -a --exclude .git --exclude work --exclude replay --exclude build %s/ %s/" % (V, v))
    os.makedirs(os.path.join(v, "work"))
    sh("git clone -q /repo %s" % repo)
    gm = os.path.join(v, "harness", "go.mod")
    txt = open(gm).read().replace("=> /repo", "=> " + repo)
    open(gm, "w").write(txt)
    env = dict(env0, VERIF_REPO=repo, VERIF_JOBS=str(max(2, 16 // K)))
    for sid in ids:
        d = os.path.join(V, SDIR, sid)
        meta = json.load(open(os.path.join(d, "meta.json")))
        if "checks" in meta:
            props = list(meta["checks"])
        else:
            props = [meta["breaks_property"]] + [p for p in meta.get("also_checks", []) if p != meta["breaks_property"]]
        r = sh("git -C %s apply %s" % (repo, os.path.join(d, "patch.diff")))
        if r.returncode != 0:
            with lock:
                print(sid, "PATCH DOES NOT APPLY", r.stdout[-200:], file=log, flush=True)
            continue
        try:
            for p in props:
                t = time.time()
                r = subprocess.run([os.path.join(v, "check"), p], cwd=v, env=env, stdout=subprocess.PIPE, stderr=subprocess.STDOUT, text=True)
                vio = [l for l in r.stdout.splitlines() if l.startswith("VIOLATION")]
                what = ""
                try:
                    rp = json.load(open(os.path.join(v, "replay", "%s-1.json" % p)))
                    what = (rp.get("what") or "")[:110] + " | " + str(rp.get("expr") or rp.get("family") or "")[:60]
                except Exception:
                    pass
                if r.returncode not in (0, 1):
                    what = "CHECK FAILED TO RUN: " + r.stdout[-400:].replace("\n", " / ")
                with lock:
                    res.setdefault(sid, {})[p] = {"exit": r.returncode, "violations": len(vio), "first": vio[:1], "what": what, "s": round(time.time() - t)}
                    print(sid, p, "exit", r.returncode, len(vio), "violation line(s)", vio[:1], "::", what, file=log, flush=True)
        finally:
            sh("git -C %s checkout -- ." % repo)
            sh("git -C %s clean -fdq" % repo)
    shutil.rmtree(base, ignore_errors=True)


ts = [threading.Thread(target=worker, args=(k, ids)) for k, ids in enumerate(shards) if ids]
for t in ts:
    t.start()
for t in ts:
    t.join()
json.dump(res, open(os.path.join(V, "work", "seeded_par%s.json" % tag), "w"), indent=1)
shutil.rmtree(ROOT, ignore_errors=True)
miss = [s for s in seeds if s not in res or any(x["exit"] == 0 for x in res[s].values()) and not any(x["exit"] == 1 for x in res[s].values())]
noin = [s for s in seeds if s in res and all("no-failing-input-found" in " ".join(x["first"]) for x in res[s].values() if x["exit"] == 1) and any(x["exit"] == 1 for x in res[s].values())]
print("seeds", len(seeds), "missed", miss, "no-failing-input", noin, file=log, flush=True)

#!/usr/bin/env python3
"""Regenerates /verif/MANIFEST.json from the list of built checks below."""
import json, os
V = os.path.dirname(os.path.dirname(os.path.abspath(__file__)))
props = [json.loads(l) for l in open(os.path.join(V, "properties.jsonl"))]

# property -> (level text, level note / partial parts, technique)
BUILT = {
 "C01": ("Theorems: for every expression tree, document and sufficient fuel the interpreter on the tree's AST returns the specification's eval; the core fragment never fails; the named clauses. Tie: regenerated tables + model/spec/library run on generated core expressions and the compliance corpus.",
         "The step from expression text to the AST is covered by the parser theorems of C03/C04 and by this check's correspondence run (Go AST = specification's compile on every generated tree)."),
 "C02": ("Theorems: interpreter = eval on all projection forms for every object iteration order; characterisation of the five projection forms; object-wildcard content independent of iteration order (Permutation).",
         "Projection scope (where a right-hand side ends) is a parser statement: C03."),
 "C03": ("Theorems: the Pratt tables regenerated from parser.go are exactly the specification's precedence levels at every token and every parse call site, the levels are ordered as the property lists them, the projection stop constant, parentheses are transparent, left associativity at the level of wp. The statement parse(render e) = compile e for every well-precedenced tree is NOT yet a theorem (Pratt lemma in progress): it is covered by the correspondence run (library AST = compile tree on every generated well-precedenced tree, in minimal, fully parenthesised and whitespace spellings).",
         "Partial: see text; the tie of the precedence rules to the parser's control flow is by correspondence, the tie of the tables by regenerated theorem."),
 "C04": ("Theorems: Compile always returns (accept or reject at compile time) for every byte string; whatever is accepted is the AST of an expression tree of the grammar's tree language (no malformed AST, calls only on unquoted names, expression references only as arguments, multi-selects non-empty ...), and searching it is evaluating that tree. The converse (every grammatical sentence is accepted) and 'the accepted token sequence is a rendering of that tree' are not yet theorems: covered by the correspondence run (exhaustive token strings to a length bound, mutated valid expressions, fuzz corpus, a list of grammatical / ungrammatical expectations written from the grammar).",
         "Partial: soundness of shape is proved, language equality is tested."),
 "C05": ("Theorems: the lexer on any bytes returns (tokens ending in the only EOF, positions in range) and never panics; the parser's cursor never leaves the token list and fuel 2*tokens+2 suffices; whatever compiles is the AST of an expression tree; Search on any bytes and any data returns a value or an error, never a panic. All unchecked Go operations are kept unchecked in the model.",
         "PARTIAL by nature: real time, memory and stack depth are runtime facts outside the model; the harness runs long inputs (to 64 KiB) on the library only and every case under a crash/hang watchdog."),
 "C06": ("Theorem (regenerated from the Go source on every run by a write-site analysis in tools/extract_tables): every statement of the library that stores into a slice, map or struct field writes storage allocated by the same activation or a field of a per-call object; none writes storage reachable from a parameter. Plus: deep snapshot comparison of the document before/after every generated call on the real library, success and error paths.",
         "A pure Gallina model cannot exhibit in-place mutation; the proof obligation is therefore about the source (static, conservative provenance analysis: part of the trusted base), the failing-input search is the Go-side snapshot oracle."),
 "C07": ("Theorems: isFalse = the five-case truth definition; ||, &&, ! return/short-circuit as specified, also when the unused operand would fail; == != deep equality, never across types; ordering comparators on two numbers else null.",
         "Exhaustive value-universe pairs are run through library, model and specification."),
 "C08": ("Theorems: the slice node (capSlice, computeSliceParams, the loops with 64-bit wrap-around and unchecked slice[i]) equals Python extended slicing for every array shorter than 2^63 and all int64 start/stop/step; step 0 is an error on arrays; non-arrays give null; never a panic or fuel exhaustion.",
         "Exhaustive windows for small lengths and boundary values are run through library, model and specification."),
 "C11": ("Theorems: for every strict context (operands, both sides of . and |, projection left-hand sides, right-hand sides and filter conditions over at least one element, multi-select members, function arguments incl. map's expression reference; nested to any depth) an error of the expression in the hole is an error of the whole, for the specification and for the interpreter; projections propagate a failing left-hand side; unevaluated operands are not looked at.",
         "Contexts x erroring seeds x documents are also run through library, model and specification."),
 "C12": ("PARTIAL (named in Properties/C12.v): footprint theorem regenerated from the source (no write to storage reachable from parameters or to fields of objects shared between calls) and 'each call is a function of AST and its own document'; the step to 'no data race in any interleaving' is by test: 8 goroutines x many calls on shared compiled expressions and documents under the Go race detector, each result compared with the call made alone.",
         "Interleavings and the Go memory model are not expressible in an executable Gallina model."),
 "C13": ("Theorems over histories: any sequence of Search calls on one compiled expression returns what fresh calls return and leaves the object unchanged; one-shot Search = Compile then Search; a reused Parser answers like a fresh one after any sequence of (failed) Parse calls (stateful model mirroring the field assignments); no write to shared storage (regenerated).",
         "Histories of calls are also run on the real library and compared with fresh objects."),
 "C15": ("Theorems: eval of a pipe is composition of evals, it fails exactly when a step fails; the compiled pipe on the interpreter; referential transparency for every root context (congruence theorem), replacement by the literal of the value.",
         "That the text 'A | B' is read as the pipe of A and B is a parser statement (C03); the harness compares Search('A | B', d) with Search(B, Search(A, d)) on the real library."),
 "C17": ("Theorems: Compile returns exactly one of (expression, error) on every byte string; a syntax error's offset lies in [0, len]; the caret rendering has the stated form and strings.Repeat is never called with a negative count; MustCompile panics exactly when Compile fails.",
         "Exact offsets are compared between library and model on generated inputs; the error message text is not modelled."),
 "C09": ("Theorems: the dispatcher of functions.go (regenerated table, 26 handlers) equals the specification's call on every name and argument list, and the specification's call has the relational reading the property lists: sort/sort_by return a permutation in ascending order with equivalent keys in input order (stable), max/min the first greatest/least number or string (byte order = code-point order), max_by/min_by the element of the first extremal key and null for an empty array, merge gives each key the value of the last argument binding it, map returns one result per element (nulls kept), avg of nothing is null, to_number a finite number or null, not_null the first non-null argument, length/reverse count and reverse Unicode code points (UTF-8 decode-of-encode theorem), and the defining equations of the other functions; expression references are applied element by element with the element as current node (keyed).",
         "The order theorems for numbers assume NumOrder (< is a strict weak order on finite numbers: an IEEE 754 fact about float64 that is not proved for the PrimFloat instance); 'to_string output decodes back to the argument' is checked by the run (Go-side round trip and model/library comparison), not proved. Full function x typed-universe matrix, standalone and nested, runs through library, model and specification."),
 "C19": ("Theorems about the model of run() (Model/Cli.v: argument count, Parse, input channel, json.Unmarshal, Search, MarshalIndent, Println, status): valid expression + valid input + successful Search => standard output is exactly the indented JSON text of the library's result plus a newline, status 0; status 0 only then; every failure (invalid expression, unreadable or invalid input, evaluation error, unserialisable result, wrong argument count) => status 1 and empty standard output; both channels interchangeable; never a panic; under C16's proviso the result is always serialisable. Tie: the built jpgo binary is run on generated (expression, input, channel) triples and its status and standard output are compared byte for byte with the model's, and with the library called directly.",
         "Not modelled: the text on standard error, the flag package (-ast, option parsing), real file system and pipe behaviour (a read either delivers the bytes or fails). MarshalIndent is modelled (encoding/json is standard library: modelled, not verified)."),
 "C14": ("Theorems (via tokenize_view: the cursor lexer of Model/Lexer.v equals a lexer over the remaining input, for all bytes): a string is read as one unquoted identifier spanning the input iff it matches [A-Za-z_][A-Za-z0-9_]* (character classes = the bit masks regenerated from lexer.go); for every sequence of Unicode scalar values the quoted identifier in json.Marshal's spelling is one token holding exactly the string and Search selects exactly that member (JSON string escape/unescape round trip, UTF-8 decode-of-encode); any other spelling whose quotes and backslashes are escaped denotes its JSON decoding; for EVERY byte string without a backslash before a quote or at the end the raw literal with ' written as \\' denotes exactly it; a JSON text between backticks with ` as \\` is one literal token holding the text, denoting json.Unmarshal of it.",
         "PARTIAL: (1) 'the backtick literal of the JSON text of v denotes exactly v' needs json.Unmarshal(json.Marshal v) = v, which is proved for strings but not for whole values (numbers need a print/parse law of float formatting) - checked by the run on generated values incl. adversarial spellings; (2) 'whitespace between tokens is insignificant' for whole expressions is checked by the run (C03 family: every tree in minimal and randomly spaced spelling gives the same AST), not proved."),
 "C16": ("Theorems: Search on any expression text and any JSON document returns, when it succeeds, a value with no expression reference and only well-formed string-keyed objects (unconditional, any number type incl. binary64); all its numbers are finite under the property's no-overflow proviso (NoOverflow: abs, ceil, floor, length conversion, addition and division by a length preserve finiteness - satisfiable, shown for exact arithmetic); to_number and JSON literals yield finite numbers or null/error, avg of nothing is null; JSON data is always serialisable.",
         "PARTIAL for the last clause: 'serialise and read back an equal value' is not a theorem (needs a print/parse round-trip law of float formatting); the harness does the json.Marshal/Unmarshal round trip and a nil-vs-empty type walk on the real result of every generated call. NoOverflow is a hypothesis on the number operations as a whole, so for binary64 the finiteness half is a theorem only about evaluations of a number type in which sums cannot overflow; on binary64 itself finiteness is checked by the run."),
 "C10": ("Theorems: the dispatcher of functions.go (regenerated table, resolveArgs/typeCheck, 26 handlers with unchecked assertions) equals the specification's call for every name and argument list; ill-typed / wrong arity / unknown => error; inconsistent by-keys => error at any length; evaluation never panics.",
         "The full name x arity x universe matrix is run through library, model and specification."),
}
NOTE = ("Trusted: Coq 8.16.1 kernel and vm_compute; the hand-written Gallina model (tied to the code by differential execution on "
        "generated inputs, not proved equal to it); tools/extract_tables; the Go harness and ./check; Go's standard library is modelled, "
        "not verified (encoding/json, strconv, sort.Stable, unicode/utf8, reflect, map order). See DESIGN.md section 8. ")
checks, na = [], []
for p in props:
    pid = p["id"]
    if pid in BUILT:
        text, note = BUILT[pid]
        checks.append({
            "property_id": pid,
            "quick_cmd": "./check %s --tier quick" % pid,
            "thorough_cmd": "./check %s --tier thorough" % pid,
            "evidence_file": "/verif/evidence/%s.json" % pid,
            "replay_cmd_template": "./check %s --replay {path}" % pid,
            "engine": "coq-model",
            "level_claimed": {"category": "proof", "text": text, "design_ref": "DESIGN.md section 6, " + pid},
            "level_note": NOTE + note,
            "technique": "machine-checked proof in Coq over an executable model; tables regenerated from source; model/specification/implementation correspondence run",
        })
    else:
        na.append({"property_id": pid, "reason": "check not built yet (work in progress in this session)"})
m = {"version": 1, "setup_cmd": "./check --setup",
     "hooks": {"guard": "verif", "enable": "go build -tags verif (harness module: replace github.com/jmespath/go-jmespath => /repo)",
               "baseline_off_cmd": "for m in . internal/testify; do (cd /repo/$m && GOFLAGS=-mod=mod go test -json -vet=off -count=1 -timeout 25m ./...); done",
               "source_commits": ["ac95b33b09a10f77faf6fc65c5acee6bd24021ef"], "add_only": True},
     "engines": [{"name": "coq-model", "path": "/verif/coq", "serves_properties": [c["property_id"] for c in checks],
                  "kind_free_text": "Coq 8.16.1 development (model, specification, proofs) + Go harness for the correspondence run"}],
     "checks": checks, "not_applicable": na, "notes": "See DESIGN.md."}
json.dump(m, open(os.path.join(V, "MANIFEST.json"), "w"), indent=1)
print(len(checks), "checks,", len(na), "not yet claimed")

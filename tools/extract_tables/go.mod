module extract_tables

go 1.14

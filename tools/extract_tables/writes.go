// writes.go — write-wsite analysis: for every function of the library, every statement that
// stores into a slice, map or struct field, with the provenance of the storage
// written: Fresh (allocated by this activation), Input (reachable from a
// parameter / receiver field / call result of unknown origin), or a per-call
// object. A conservative, flow-sensitive, intra-procedural analysis with
// field-based summaries for the sort adapters.
package main

import (
	"fmt"
	"go/ast"
	"go/parser"
	"go/printer"
	"go/token"
	"path/filepath"
	"sort"
	"strings"
)

type prov int

const (
	Fresh prov = iota
	Input
)

func (p prov) String() string {
	if p == Fresh {
		return "PFresh"
	}
	return "PInput"
}

func join(a, b prov) prov {
	if a == Input || b == Input {
		return Input
	}
	return Fresh
}

// functions of the library known to return freshly allocated containers
var freshFuncs = map[string]bool{"toArrayNum": true, "toArrayStr": true, "make": true, "toGenericSlices": false}

// struct types whose values live across calls and are shared between callers
var sharedTypes = map[string]bool{"JMESPath": true, "treeInterpreter": true, "functionCaller": true, "functionEntry": true, "ASTNode": true, "argSpec": true}

type wsite struct {
	fn, what, text string
	line           int
	p              prov
}

type analyzer struct {
	sites      []wsite
	fieldProv  map[string]prov // "Type.field" -> join of what constructors store there
	recvType   string
	fn         string
	paramNames map[string]bool
}

func exprText(e ast.Node) string {
	var b strings.Builder
	printer.Fprint(&b, fset, e)
	s := b.String()
	s = strings.Join(strings.Fields(s), " ")
	if len(s) > 70 {
		s = s[:70] + "..."
	}
	return s
}

type penv map[string]prov

func (e penv) clone() penv {
	c := penv{}
	for k, v := range e {
		c[k] = v
	}
	return c
}

func merge(a, b penv) penv {
	c := penv{}
	for k, v := range a {
		if w, ok := b[k]; ok {
			c[k] = join(v, w)
		} else {
			c[k] = v
		}
	}
	for k, v := range b {
		if _, ok := c[k]; !ok {
			c[k] = v
		}
	}
	return c
}

// provOf: where the storage denoted by e comes from
func (a *analyzer) provOf(e ast.Expr, en penv) prov {
	switch v := e.(type) {
	case *ast.Ident:
		if p, ok := en[v.Name]; ok {
			return p
		}
		if v.Name == "nil" {
			return Fresh
		}
		return Input // parameter, global, unknown
	case *ast.CompositeLit:
		return Fresh
	case *ast.CallExpr:
		if id, ok := v.Fun.(*ast.Ident); ok {
			switch id.Name {
			case "make", "new":
				return Fresh
			case "append":
				if len(v.Args) > 0 {
					return a.provOf(v.Args[0], en)
				}
			case "toArrayNum", "toArrayStr":
				return Fresh
			}
			return Input
		}
		if sel, ok := v.Fun.(*ast.SelectorExpr); ok {
			// conversions such as sort.Float64Slice(x) keep the storage of x
			if x, ok := sel.X.(*ast.Ident); ok && x.Name == "sort" && strings.HasSuffix(sel.Sel.Name, "Slice") && len(v.Args) == 1 {
				return a.provOf(v.Args[0], en)
			}
		}
		if _, ok := v.Fun.(*ast.ArrayType); ok && len(v.Args) == 1 { // []byte(x): a copy
			return Fresh
		}
		return Input
	case *ast.TypeAssertExpr:
		return a.provOf(v.X, en)
	case *ast.IndexExpr:
		return a.provOf(v.X, en)
	case *ast.SliceExpr:
		return a.provOf(v.X, en)
	case *ast.ParenExpr:
		return a.provOf(v.X, en)
	case *ast.StarExpr:
		return a.provOf(v.X, en)
	case *ast.UnaryExpr:
		if v.Op == token.AND {
			return a.provOf(v.X, en)
		}
		return Fresh
	case *ast.SelectorExpr:
		// field of a struct value: use the field summary when known
		if id, ok := v.X.(*ast.Ident); ok && id.Name == a.recvName() {
			if p, ok := a.fieldProv[a.recvType+"."+v.Sel.Name]; ok {
				return p
			}
		}
		return a.provOf(v.X, en)
	case *ast.BasicLit, *ast.FuncLit:
		return Fresh
	}
	return Input
}

var curRecv string

func (a *analyzer) recvName() string { return curRecv }

func (a *analyzer) record(what string, n ast.Node, p prov) {
	a.sites = append(a.sites, wsite{a.fn, what, exprText(n), fset.Position(n.Pos()).Line, p})
}

func (a *analyzer) stmts(list []ast.Stmt, en penv) penv {
	for _, s := range list {
		en = a.stmt(s, en)
	}
	return en
}

func (a *analyzer) calls(n ast.Node, en penv) {
	ast.Inspect(n, func(m ast.Node) bool {
		c, ok := m.(*ast.CallExpr)
		if !ok {
			return true
		}
		if sel, ok := c.Fun.(*ast.SelectorExpr); ok {
			if x, ok := sel.X.(*ast.Ident); ok && x.Name == "sort" && (sel.Sel.Name == "Stable" || sel.Sel.Name == "Sort") && len(c.Args) == 1 {
				a.record("sort in place", c, a.sortTarget(c.Args[0], en))
			}
		}
		if id, ok := c.Fun.(*ast.Ident); ok && id.Name == "copy" && len(c.Args) == 2 {
			a.record("copy into", c, a.provOf(c.Args[0], en))
		}
		if id, ok := c.Fun.(*ast.Ident); ok && id.Name == "append" && len(c.Args) > 0 {
			a.record("append (may write spare capacity)", c, a.provOf(c.Args[0], en))
		}
		if id, ok := c.Fun.(*ast.Ident); ok && id.Name == "delete" && len(c.Args) == 2 {
			a.record("delete from map", c, a.provOf(c.Args[0], en))
		}
		return true
	})
}

// what sort.Stable(x) permutes: x itself, or for an adapter struct the slice it holds
func (a *analyzer) sortTarget(e ast.Expr, en penv) prov {
	if id, ok := e.(*ast.Ident); ok {
		if p, ok := en["@sortable:"+id.Name]; ok {
			return p
		}
	}
	return a.provOf(e, en)
}

func (a *analyzer) assign(lhs ast.Expr, rhs ast.Expr, en penv, define bool) {
	switch l := lhs.(type) {
	case *ast.Ident:
		if l.Name == "_" {
			return
		}
		p := Input
		if rhs != nil {
			p = a.provOf(rhs, en)
			// an adapter built from a composite literal: remember what its slice field holds
			if u, ok := rhs.(*ast.UnaryExpr); ok && u.Op == token.AND {
				if cl, ok := u.X.(*ast.CompositeLit); ok {
					pp := Fresh
					for _, el := range cl.Elts {
						v := el
						if kv, ok := el.(*ast.KeyValueExpr); ok {
							v = kv.Value
						}
						if id, ok := v.(*ast.Ident); ok {
							if q, ok := en[id.Name]; ok {
								pp = join(pp, q)
							} else if id.Name != "false" && id.Name != "true" && id.Name != "nil" {
								pp = join(pp, Input)
							}
						}
					}
					// scalars and nodes are read-only; only slices matter: approximate by the join over slice-typed variables
					en["@sortable:"+l.Name] = a.sliceJoin(cl, en)
					_ = pp
				}
			}
		}
		en[l.Name] = p
	case *ast.IndexExpr:
		a.record("store into element", lhs, a.provOf(l.X, en))
	case *ast.SelectorExpr:
		// struct field store
		root := l.X
		tname := a.typeOfRecvExpr(root)
		p := Fresh
		if sharedTypes[tname] {
			p = Input
		}
		a.record("store into field "+tname+"."+l.Sel.Name, lhs, p)
	case *ast.StarExpr:
		a.record("store through pointer", lhs, a.provOf(l.X, en))
	}
}

func (a *analyzer) sliceJoin(cl *ast.CompositeLit, en penv) prov {
	p := Fresh
	for _, el := range cl.Elts {
		v := el
		if kv, ok := el.(*ast.KeyValueExpr); ok {
			v = kv.Value
		}
		if id, ok := v.(*ast.Ident); ok {
			if id.Name == "arr" || strings.HasSuffix(id.Name, "items") || strings.HasSuffix(id.Name, "Items") {
				p = join(p, a.provOf(id, en))
			}
		}
	}
	return p
}

func (a *analyzer) typeOfRecvExpr(e ast.Expr) string {
	if id, ok := e.(*ast.Ident); ok && id.Name == curRecv {
		return a.recvType
	}
	if id, ok := e.(*ast.Ident); ok {
		return "local:" + id.Name
	}
	return "?"
}

func (a *analyzer) stmt(s ast.Stmt, en penv) penv {
	switch v := s.(type) {
	case *ast.AssignStmt:
		for _, r := range v.Rhs {
			a.calls(r, en)
		}
		if len(v.Lhs) == len(v.Rhs) {
			// evaluate right-hand sides first
			ps := make([]ast.Expr, len(v.Rhs))
			copy(ps, v.Rhs)
			for i := range v.Lhs {
				a.assign(v.Lhs[i], ps[i], en, v.Tok == token.DEFINE)
			}
		} else {
			for i := range v.Lhs {
				var r ast.Expr
				if i == 0 && len(v.Rhs) == 1 {
					r = v.Rhs[0]
				}
				a.assign(v.Lhs[i], r, en, v.Tok == token.DEFINE)
			}
		}
	case *ast.IncDecStmt:
		a.assign(v.X, nil, en, false)
	case *ast.DeclStmt:
		if g, ok := v.Decl.(*ast.GenDecl); ok {
			for _, sp := range g.Specs {
				if vs, ok := sp.(*ast.ValueSpec); ok {
					for i, n := range vs.Names {
						if i < len(vs.Values) {
							a.calls(vs.Values[i], en)
							en[n.Name] = a.provOf(vs.Values[i], en)
						} else {
							en[n.Name] = Fresh // zero value: nil slice / map
						}
					}
				}
			}
		}
	case *ast.ExprStmt:
		a.calls(v.X, en)
	case *ast.ReturnStmt:
		for _, r := range v.Results {
			a.calls(r, en)
		}
	case *ast.IfStmt:
		if v.Init != nil {
			en = a.stmt(v.Init, en)
		}
		a.calls(v.Cond, en)
		e1 := a.stmts(v.Body.List, en.clone())
		e2 := en.clone()
		if v.Else != nil {
			e2 = a.stmt(v.Else, e2)
		}
		en = merge(e1, e2)
	case *ast.BlockStmt:
		en = a.stmts(v.List, en)
	case *ast.ForStmt:
		if v.Init != nil {
			en = a.stmt(v.Init, en)
		}
		if v.Cond != nil {
			a.calls(v.Cond, en)
		}
		body := a.stmts(v.Body.List, en.clone())
		if v.Post != nil {
			body = a.stmt(v.Post, body)
		}
		en = merge(en, body)
		// second pass with the merged environment (loop-carried provenance)
		a2 := &analyzer{fieldProv: a.fieldProv, recvType: a.recvType, fn: a.fn}
		a2.stmts(v.Body.List, en.clone())
		for _, s2 := range a2.sites {
			found := false
			for i := range a.sites {
				if a.sites[i].line == s2.line && a.sites[i].what == s2.what && a.sites[i].fn == s2.fn {
					a.sites[i].p = join(a.sites[i].p, s2.p)
					found = true
				}
			}
			if !found {
				a.sites = append(a.sites, s2)
			}
		}
	case *ast.RangeStmt:
		a.calls(v.X, en)
		be := en.clone()
		if id, ok := v.Key.(*ast.Ident); ok && id.Name != "_" {
			be[id.Name] = Fresh
		}
		if id, ok := v.Value.(*ast.Ident); ok && id.Name != "_" {
			be[id.Name] = a.provOf(v.X, en) // an element is reachable from the container
		}
		body := a.stmts(v.Body.List, be)
		en = merge(en, body)
	case *ast.SwitchStmt:
		if v.Init != nil {
			en = a.stmt(v.Init, en)
		}
		out := en.clone()
		for _, c := range v.Body.List {
			cc := c.(*ast.CaseClause)
			out = merge(out, a.stmts(cc.Body, en.clone()))
		}
		en = out
	case *ast.TypeSwitchStmt:
		be := en.clone()
		if as, ok := v.Assign.(*ast.AssignStmt); ok && len(as.Lhs) == 1 {
			if id, ok := as.Lhs[0].(*ast.Ident); ok {
				be[id.Name] = a.provOf(as.Rhs[0], en)
			}
		}
		out := en.clone()
		for _, c := range v.Body.List {
			cc := c.(*ast.CaseClause)
			out = merge(out, a.stmts(cc.Body, be.clone()))
		}
		en = out
	case *ast.LabeledStmt:
		en = a.stmt(v.Stmt, en)
	}
	return en
}

func recvInfo(fd *ast.FuncDecl) (name, typ string) {
	if fd.Recv == nil || len(fd.Recv.List) == 0 {
		return "", ""
	}
	f := fd.Recv.List[0]
	if len(f.Names) > 0 {
		name = f.Names[0].Name
	}
	t := f.Type
	if st, ok := t.(*ast.StarExpr); ok {
		t = st.X
	}
	if id, ok := t.(*ast.Ident); ok {
		typ = id.Name
	}
	return
}

func emitWrites(repo string) {
	files := []string{"lexer.go", "parser.go", "interpreter.go", "functions.go", "util.go", "api.go"}
	a := &analyzer{fieldProv: map[string]prov{}}
	var decls []*ast.FuncDecl
	for _, f := range files {
		af, err := parser.ParseFile(fset, filepath.Join(repo, f), nil, 0)
		if err != nil {
			die("%v", err)
		}
		for _, d := range af.Decls {
			if fd, ok := d.(*ast.FuncDecl); ok && fd.Body != nil {
				decls = append(decls, fd)
			}
		}
	}
	// field summaries for the sort adapters: what jpfSortBy stores in byExpr*.items
	for pass := 0; pass < 2; pass++ {
		a.sites = nil
		for _, fd := range decls {
			curRecv, a.recvType = recvInfo(fd)
			a.fn = fd.Name.Name
			if a.recvType != "" {
				a.fn = a.recvType + "." + a.fn
			}
			en := penv{}
			en = a.stmts(fd.Body.List, en)
			// summaries: adapters constructed in this function
			for k, v := range en {
				if strings.HasPrefix(k, "@sortable:") {
					for _, t := range []string{"byExprString", "byExprFloat"} {
						key := t + ".items"
						if old, ok := a.fieldProv[key]; ok {
							a.fieldProv[key] = join(old, v)
						} else {
							a.fieldProv[key] = v
						}
					}
				}
			}
		}
	}
	sort.SliceStable(a.sites, func(i, j int) bool {
		if a.sites[i].fn != a.sites[j].fn {
			return a.sites[i].fn < a.sites[j].fn
		}
		return a.sites[i].line < a.sites[j].line
	})
	fmt.Println("(* GENERATED by /verif/tools/extract_tables (write-wsite analysis) — do not edit. *)")
	fmt.Println("From JM Require Import Model.Base.")
	fmt.Println("Inductive provenance := PFresh | PInput.")
	fmt.Println("Record write_site := WriteSite { ws_func : bytes; ws_kind : bytes; ws_prov : provenance }.")
	fmt.Println("Definition write_sites : list write_site :=\n  [")
	for i, s := range a.sites {
		sep := ";"
		if i == len(a.sites)-1 {
			sep = ""
		}
		fmt.Printf("  (* %s:%d  %s  —  %s *)\n  WriteSite %s %s %s%s\n", s.fn, s.line, s.what, strings.Replace(s.text, "*)", "* )", -1), coqStr(s.fn), coqStr(s.what), s.p, sep)
	}
	fmt.Println("  ].")
}

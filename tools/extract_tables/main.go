// extract_tables reads lexer.go, parser.go and functions.go of the repository
// under study with go/parser and prints coq/gen/Tables.v: the literal tables
// that the Coq model imports instead of restating them (binding powers, the
// binding power passed at every parse call site, the projection stop constant,
// token and AST enumerations, single-character tokens, whitespace, identifier
// bit masks and their guard, the function table).
package main

import (
	"fmt"
	"go/ast"
	"go/parser"
	"go/token"
	"os"
	"path/filepath"
	"sort"
	"strconv"
	"strings"
)

var fset = token.NewFileSet()

func die(format string, a ...interface{}) {
	fmt.Fprintf(os.Stderr, "extract_tables: "+format+"\n", a...)
	os.Exit(2)
}

func parse(path string) *ast.File {
	f, err := parser.ParseFile(fset, path, nil, 0)
	if err != nil {
		die("%v", err)
	}
	return f
}

func coqStr(s string) string {
	var parts []string
	for _, b := range []byte(s) {
		parts = append(parts, strconv.Itoa(int(b)))
	}
	return "[" + strings.Join(parts, "; ") + "]%N"
}

// iotaNames returns the names of the const block whose first spec has the given type name.
func iotaNames(f *ast.File, typeName string) []string {
	for _, d := range f.Decls {
		g, ok := d.(*ast.GenDecl)
		if !ok || g.Tok != token.CONST || len(g.Specs) == 0 {
			continue
		}
		first := g.Specs[0].(*ast.ValueSpec)
		id, ok := first.Type.(*ast.Ident)
		if !ok || id.Name != typeName {
			continue
		}
		if len(first.Values) != 1 {
			continue
		}
		if v, ok := first.Values[0].(*ast.Ident); !ok || v.Name != "iota" {
			die("const block of %s does not start at iota", typeName)
		}
		var names []string
		for _, s := range g.Specs {
			vs := s.(*ast.ValueSpec)
			if len(vs.Names) != 1 {
				die("unexpected const spec in %s block", typeName)
			}
			if s != g.Specs[0] && (vs.Type != nil || len(vs.Values) != 0) {
				die("const %s breaks the iota sequence", vs.Names[0].Name)
			}
			names = append(names, vs.Names[0].Name)
		}
		return names
	}
	die("const block for %s not found", typeName)
	return nil
}

func findVar(f *ast.File, name string) ast.Expr {
	for _, d := range f.Decls {
		g, ok := d.(*ast.GenDecl)
		if !ok || (g.Tok != token.VAR && g.Tok != token.CONST) {
			continue
		}
		for _, s := range g.Specs {
			vs := s.(*ast.ValueSpec)
			for i, n := range vs.Names {
				if n.Name == name && i < len(vs.Values) {
					return vs.Values[i]
				}
			}
		}
	}
	die("declaration of %s not found", name)
	return nil
}

func findFunc(f *ast.File, name string) *ast.FuncDecl {
	for _, d := range f.Decls {
		if fd, ok := d.(*ast.FuncDecl); ok && fd.Name.Name == name {
			return fd
		}
	}
	die("func %s not found", name)
	return nil
}

func intLit(e ast.Expr) string {
	switch v := e.(type) {
	case *ast.BasicLit:
		if v.Kind == token.INT {
			return v.Value
		}
		if v.Kind == token.CHAR {
			r, _, _, err := strconv.UnquoteChar(v.Value[1:len(v.Value)-1], '\'')
			if err != nil {
				die("bad char literal %s", v.Value)
			}
			return strconv.Itoa(int(r))
		}
	case *ast.UnaryExpr:
		if v.Op == token.SUB {
			return "(-" + intLit(v.X) + ")"
		}
	}
	die("expected an integer literal at %s", fset.Position(e.Pos()))
	return ""
}

// bpArg renders the binding-power argument of a parse call.
func bpArg(e ast.Expr) string {
	switch v := e.(type) {
	case *ast.BasicLit:
		return "BPLit " + intLit(v)
	case *ast.IndexExpr:
		if x, ok := v.X.(*ast.Ident); ok && x.Name == "bindingPowers" {
			if id, ok := v.Index.(*ast.Ident); ok {
				if strings.HasPrefix(id.Name, "t") && id.Name != "tokenType" {
					return "BPTok " + id.Name
				}
				return "BPArgTok" // bindingPowers[tokenType]: the operator being handled
			}
		}
	case *ast.CallExpr:
		if f, ok := v.Fun.(*ast.Ident); ok && bpFuncName != "" && f.Name == bpFuncName && len(v.Args) == 1 {
			if id, ok := v.Args[0].(*ast.Ident); ok {
				if strings.HasPrefix(id.Name, "t") && id.Name != "tokenType" {
					return "BPTok " + id.Name
				}
				return "BPArgTok"
			}
		}
	case *ast.Ident:
		return "BPParam" // the caller's own bindingPower parameter
	}
	die("unrecognised binding power argument at %s", fset.Position(e.Pos()))
	return ""
}

type site struct{ key, val string }

// callSites lists, in source order, every call p.<callee>(<bp>) inside fn,
// keyed by function, enclosing case label and callee.
func callSites(fn *ast.FuncDecl) []site {
	var out []site
	count := map[string]int{}
	var walk func(n ast.Node, label string)
	walk = func(n ast.Node, label string) {
		ast.Inspect(n, func(m ast.Node) bool {
			switch v := m.(type) {
			case *ast.CaseClause:
				var names []string
				for _, e := range v.List {
					if id, ok := e.(*ast.Ident); ok {
						names = append(names, id.Name)
					} else if sel, ok := e.(*ast.SelectorExpr); ok {
						names = append(names, sel.Sel.Name)
					}
				}
				l := strings.Join(names, "_")
				if l == "" {
					// a default clause or a clause of a tagless switch: the call stays under the
					// label of the enclosing clause (rewriting an if-chain into such a switch
					// changes nothing)
					l = label
				}
				for _, s := range v.Body {
					walk(s, l)
				}
				return false
			case *ast.CallExpr:
				sel, ok := v.Fun.(*ast.SelectorExpr)
				if !ok {
					return true
				}
				switch sel.Sel.Name {
				case "parseExpression", "parseProjectionRHS", "parseDotRHS", "continueExpression":
					want := 1
					if sel.Sel.Name == "continueExpression" {
						want = 2
					}
					if len(v.Args) != want {
						die("call of %s with %d args", sel.Sel.Name, len(v.Args))
					}
					base := fn.Name.Name
					if label != "" {
						base += "_" + label
					}
					base += "_" + sel.Sel.Name
					count[base]++
					key := base
					if count[base] > 1 {
						key += strconv.Itoa(count[base])
					}
					out = append(out, site{key, bpArg(v.Args[len(v.Args)-1])})
				}
			}
			return true
		})
	}
	walk(fn.Body, "")
	return out
}

// findVarOpt is findVar without the failure.
func findVarOpt(f *ast.File, name string) ast.Expr {
	for _, d := range f.Decls {
		g, ok := d.(*ast.GenDecl)
		if !ok || (g.Tok != token.VAR && g.Tok != token.CONST) {
			continue
		}
		for _, s := range g.Specs {
			vs := s.(*ast.ValueSpec)
			for i, n := range vs.Names {
				if n.Name == name && i < len(vs.Values) {
					return vs.Values[i]
				}
			}
		}
	}
	return nil
}

type tableRow struct {
	key  ast.Expr
	vals []ast.Expr
}

// switchTable reads a table written as a function "func f(k K) V... { switch k { case a, b: return v...
// ... } return d... }": the rows in source order and the function's name.  want: the parameter type,
// nres: the number of results.
func switchTable(f *ast.File, want string, nres int, accept func(rows []tableRow) bool) ([]tableRow, string) {
	for _, d := range f.Decls {
		fd, ok := d.(*ast.FuncDecl)
		if !ok || fd.Recv != nil || fd.Body == nil || fd.Type.Params == nil || len(fd.Type.Params.List) != 1 || len(fd.Type.Params.List[0].Names) != 1 {
			continue
		}
		if id, ok := fd.Type.Params.List[0].Type.(*ast.Ident); !ok || id.Name != want {
			continue
		}
		if fd.Type.Results == nil || fd.Type.Results.NumFields() != nres || len(fd.Body.List) != 2 {
			continue
		}
		sw, ok := fd.Body.List[0].(*ast.SwitchStmt)
		if !ok || sw.Init != nil {
			continue
		}
		tag, ok := sw.Tag.(*ast.Ident)
		if !ok || tag.Name != fd.Type.Params.List[0].Names[0].Name {
			continue
		}
		if _, ok := fd.Body.List[1].(*ast.ReturnStmt); !ok {
			continue
		}
		var rows []tableRow
		good := true
		for _, c := range sw.Body.List {
			cc := c.(*ast.CaseClause)
			if len(cc.List) == 0 || len(cc.Body) != 1 {
				good = false
				break
			}
			rs, ok := cc.Body[0].(*ast.ReturnStmt)
			if !ok || len(rs.Results) != nres {
				good = false
				break
			}
			for _, k := range cc.List {
				rows = append(rows, tableRow{k, rs.Results})
			}
		}
		if good && len(rows) > 0 && (accept == nil || accept(rows)) {
			return rows, fd.Name.Name
		}
	}
	return nil, ""
}

var bpFuncName string // the function that returns binding powers, when the table is written as one

// oneLineFuncs: package-level functions without receiver whose body is a single "return <expr>"
func oneLineFuncs(f *ast.File) map[string]*ast.FuncDecl {
	out := map[string]*ast.FuncDecl{}
	for _, d := range f.Decls {
		fd, ok := d.(*ast.FuncDecl)
		if !ok || fd.Recv != nil || fd.Body == nil || len(fd.Body.List) != 1 {
			continue
		}
		if rs, ok := fd.Body.List[0].(*ast.ReturnStmt); ok && len(rs.Results) == 1 {
			out[fd.Name.Name] = fd
		}
	}
	return out
}

// expandCalls replaces, in an expression, calls of one-line helper functions by their returned
// expression with the parameters substituted (a variadic parameter by a slice literal of the
// remaining arguments).  Only what the function table needs: identifiers, composite literals,
// key-value pairs and calls.
func expandCalls(e ast.Expr, helpers map[string]*ast.FuncDecl, depth int) ast.Expr {
	if depth > 20 {
		return e
	}
	switch x := e.(type) {
	case *ast.CallExpr:
		id, ok := x.Fun.(*ast.Ident)
		if !ok {
			return e
		}
		fd, ok := helpers[id.Name]
		if !ok {
			return e
		}
		env := map[string]ast.Expr{}
		i := 0
		for _, fld := range fd.Type.Params.List {
			for _, n := range fld.Names {
				if ell, ok := fld.Type.(*ast.Ellipsis); ok {
					var rest []ast.Expr
					for _, a := range x.Args[i:] {
						rest = append(rest, expandCalls(a, helpers, depth+1))
					}
					env[n.Name] = &ast.CompositeLit{Type: &ast.ArrayType{Elt: ell.Elt}, Elts: rest}
					i = len(x.Args)
				} else if i < len(x.Args) {
					env[n.Name] = expandCalls(x.Args[i], helpers, depth+1)
					i++
				}
			}
		}
		body := fd.Body.List[0].(*ast.ReturnStmt).Results[0]
		return expandCalls(substIdents(body, env), helpers, depth+1)
	case *ast.CompositeLit:
		out := &ast.CompositeLit{Type: x.Type}
		for _, el := range x.Elts {
			out.Elts = append(out.Elts, expandCalls(el, helpers, depth+1))
		}
		return out
	case *ast.KeyValueExpr:
		return &ast.KeyValueExpr{Key: x.Key, Value: expandCalls(x.Value, helpers, depth+1)}
	}
	return e
}

func substIdents(e ast.Expr, env map[string]ast.Expr) ast.Expr {
	switch x := e.(type) {
	case *ast.Ident:
		if v, ok := env[x.Name]; ok {
			return v
		}
	case *ast.CompositeLit:
		out := &ast.CompositeLit{Type: x.Type}
		for _, el := range x.Elts {
			out.Elts = append(out.Elts, substIdents(el, env))
		}
		return out
	case *ast.KeyValueExpr:
		return &ast.KeyValueExpr{Key: x.Key, Value: substIdents(x.Value, env)}
	case *ast.CallExpr:
		out := &ast.CallExpr{Fun: x.Fun}
		for _, a := range x.Args {
			out.Args = append(out.Args, substIdents(a, env))
		}
		return out
	}
	return e
}

func main() {
	if len(os.Args) == 3 && os.Args[1] == "-writes" {
		emitWrites(os.Args[2])
		return
	}
	if len(os.Args) == 3 && os.Args[1] == "-state" {
		emitState(os.Args[2])
		return
	}
	if len(os.Args) != 2 {
		die("usage: extract_tables [-writes|-state] <repo dir>")
	}
	repo := os.Args[1]
	lexer := parse(filepath.Join(repo, "lexer.go"))
	pars := parse(filepath.Join(repo, "parser.go"))
	funcs := parse(filepath.Join(repo, "functions.go"))

	var b strings.Builder
	p := func(format string, a ...interface{}) { fmt.Fprintf(&b, format, a...) }
	p("(* GENERATED by /verif/tools/extract_tables from /repo/{lexer,parser,functions}.go — do not edit. *)\n")
	p("From JM Require Import Model.Base Model.Value.\n\n")

	toks := iotaNames(lexer, "tokType")
	p("Definition tok_names : list bytes :=\n  [")
	for i, n := range toks {
		if i > 0 {
			p(";\n   ")
		}
		p("(* %s *) %s", n, coqStr(n))
	}
	p("].\n\n")
	asts := iotaNames(pars, "astNodeType")
	p("Definition ast_names : list bytes :=\n  [")
	for i, n := range asts {
		if i > 0 {
			p(";\n   ")
		}
		p("(* %s *) %s", n, coqStr(n))
	}
	p("].\n\n")

	// bindingPowers
	var bpRows []tableRow
	if bpLit, ok := findVarOpt(pars, "bindingPowers").(*ast.CompositeLit); ok {
		for _, e := range bpLit.Elts {
			kv := e.(*ast.KeyValueExpr)
			bpRows = append(bpRows, tableRow{kv.Key, []ast.Expr{kv.Value}})
		}
	} else if rows, name := switchTable(pars, "tokType", 1, nil); rows != nil {
		bpRows, bpFuncName = rows, name // the table written as a switch function
	} else {
		die("bindingPowers: neither a map literal nor a switch function over tokType")
	}
	p("Definition binding_power (t : tokType) : Z :=\n  match t with\n")
	seen := map[string]bool{}
	for _, row := range bpRows {
		k := row.key.(*ast.Ident).Name
		if seen[k] {
			die("duplicate key %s in bindingPowers", k)
		}
		seen[k] = true
		p("  | %s => %s\n", k, intLit(row.vals[0]))
	}
	if len(seen) < len(toks) {
		p("  | _ => 0\n")
	}
	p("  end.\n\n")

	// parse call sites
	p("Inductive bpArg := BPLit (z : Z) | BPTok (t : tokType) | BPArgTok | BPParam.\n")
	for _, fn := range []string{"Parse", "parseExpression", "led", "nud", "parseFunctionArg", "parseMultiSelectList", "parseMultiSelectHash", "projectIfSlice", "parseFilter"} {
		for _, s := range callSites(findFunc(pars, fn)) {
			p("Definition site_%s : bpArg := %s.\n", s.key, s.val)
		}
	}
	// parseDotRHS and parseProjectionRHS hand their own binding power on at every call: one value per
	// callee, required to be the same at all its call sites in the function (however the branches are
	// written: if-chain or switch, tails duplicated or merged)
	uniform := []struct {
		fn     string
		callee string
		names  []string
	}{
		{"parseDotRHS", "parseExpression", []string{"parseDotRHS_parseExpression"}},
		{"parseDotRHS", "continueExpression", []string{"parseDotRHS_continueExpression", "parseDotRHS_continueExpression2"}},
		{"parseProjectionRHS", "parseExpression", []string{"parseProjectionRHS_parseExpression", "parseProjectionRHS_parseExpression2"}},
		{"parseProjectionRHS", "parseDotRHS", []string{"parseProjectionRHS_parseDotRHS"}},
	}
	for _, u := range uniform {
		val := ""
		for _, s := range callSites(findFunc(pars, u.fn)) {
			if !strings.HasSuffix(strings.TrimRight(s.key, "0123456789"), "_"+u.callee) {
				continue
			}
			if val != "" && val != s.val {
				die("%s: calls of %s pass different binding powers (%s, %s)", u.fn, u.callee, val, s.val)
			}
			val = s.val
		}
		if val == "" {
			die("%s: no call of %s found", u.fn, u.callee)
		}
		for _, n := range u.names {
			p("Definition site_%s : bpArg := %s.\n", n, val)
		}
	}
	p("\n")

	// parseProjectionRHS: bindingPowers[current] < N
	stop := ""
	ast.Inspect(findFunc(pars, "parseProjectionRHS"), func(n ast.Node) bool {
		if be, ok := n.(*ast.BinaryExpr); ok && be.Op == token.LSS {
			if ix, ok := be.X.(*ast.IndexExpr); ok {
				if x, ok := ix.X.(*ast.Ident); ok && x.Name == "bindingPowers" {
					stop = intLit(be.Y)
				}
			}
			if ce, ok := be.X.(*ast.CallExpr); ok && bpFuncName != "" {
				if f, ok := ce.Fun.(*ast.Ident); ok && f.Name == bpFuncName {
					if _, isLit := be.Y.(*ast.BasicLit); isLit {
						stop = intLit(be.Y)
					}
				}
			}
		}
		return true
	})
	if stop == "" {
		die("projection stop test `bindingPowers[current] < N` not found")
	}
	p("Definition projection_stop : Z := %s.\n\n", stop)

	// basicTokens
	var bts []string
	if bt, ok := findVarOpt(lexer, "basicTokens").(*ast.CompositeLit); ok {
		for _, e := range bt.Elts {
			kv := e.(*ast.KeyValueExpr)
			bts = append(bts, fmt.Sprintf("(%s, %s)", intLit(kv.Key), kv.Value.(*ast.Ident).Name))
		}
	} else if rows, _ := switchTable(lexer, "rune", 2, func(rows []tableRow) bool {
		id, ok := rows[0].vals[1].(*ast.Ident)
		return ok && id.Name == "true"
	}); rows != nil {
		for _, row := range rows {
			bts = append(bts, fmt.Sprintf("(%s, %s)", intLit(row.key), row.vals[0].(*ast.Ident).Name))
		}
	} else {
		die("basicTokens: neither a map literal nor a switch function from rune to (tokType, bool)")
	}
	p("Definition basic_tokens : list (Z * tokType) :=\n  [%s].\n\n", strings.Join(bts, "; "))
	var wss []string
	if ws, ok := findVarOpt(lexer, "whiteSpace").(*ast.CompositeLit); ok {
		for _, e := range ws.Elts {
			kv := e.(*ast.KeyValueExpr)
			if id, ok := kv.Value.(*ast.Ident); !ok || id.Name != "true" {
				die("whiteSpace entry is not true")
			}
			wss = append(wss, intLit(kv.Key))
		}
	} else if rows, _ := switchTable(lexer, "rune", 1, func(rows []tableRow) bool {
		for _, row := range rows {
			if id, ok := row.vals[0].(*ast.Ident); !ok || id.Name != "true" {
				return false
			}
			if bl, ok := row.key.(*ast.BasicLit); !ok || bl.Kind != token.CHAR {
				return false
			}
		}
		return true
	}); rows != nil {
		for _, row := range rows {
			wss = append(wss, intLit(row.key))
		}
	} else {
		die("whiteSpace: neither a map literal nor a switch function from rune to bool")
	}
	p("Definition white_space : list Z := [%s].\n\n", strings.Join(wss, "; "))
	p("Definition identifier_start_bits : Z := %s.\n", intLit(findVar(lexer, "identifierStartBits")))
	tb, ok := findVar(lexer, "identifierTrailingBits").(*ast.CompositeLit)
	if !ok {
		die("identifierTrailingBits is not a composite literal")
	}
	var tbs []string
	for _, e := range tb.Elts {
		tbs = append(tbs, intLit(e))
	}
	p("Definition identifier_trailing_bits : list Z := [%s].\n", strings.Join(tbs, "; "))
	// guard of the trailing-bits lookup: r < LO || r >(=) HI
	lo, hi, hiop := "", "", ""
	// looked for in the function that indexes identifierTrailingBits (consumeUnquotedIdentifier, or a
	// helper extracted from it), on whatever the rune variable is called there
	var guardFn ast.Node
	for _, d := range lexer.Decls {
		fd, ok := d.(*ast.FuncDecl)
		if !ok || fd.Body == nil {
			continue
		}
		ast.Inspect(fd.Body, func(n ast.Node) bool {
			if ix, ok := n.(*ast.IndexExpr); ok {
				if id, ok := ix.X.(*ast.Ident); ok && id.Name == "identifierTrailingBits" {
					guardFn = fd
				}
			}
			return true
		})
	}
	if guardFn == nil {
		die("no function indexes identifierTrailingBits")
	}
	ast.Inspect(guardFn, func(n ast.Node) bool {
		if be, ok := n.(*ast.BinaryExpr); ok {
			if _, ok := be.X.(*ast.Ident); ok {
				if _, isLit := be.Y.(*ast.BasicLit); isLit {
					switch be.Op {
					case token.LSS:
						lo = intLit(be.Y)
					case token.GTR, token.GEQ:
						hi, hiop = intLit(be.Y), be.Op.String()
					}
				}
			}
		}
		return true
	})
	if lo == "" || hi == "" {
		die("guard `r < LO || r >= HI` of the trailing-bits lookup not found")
	}
	// first rune value excluded from the lookup
	if hiop == ">" {
		p("Definition trailing_guard_hi : Z := %s + 1.   (* r > %s *)\n", hi, hi)
	} else {
		p("Definition trailing_guard_hi : Z := %s.   (* r >= %s *)\n", hi, hi)
	}
	p("Definition trailing_guard_lo : Z := %s.\n\n", lo)

	// function table: the map[string]functionEntry literal of newFunctionCaller (assigned to the
	// field or to a local); calls of one-line helper constructors inside it are expanded
	var table *ast.CompositeLit
	ast.Inspect(findFunc(funcs, "newFunctionCaller"), func(n ast.Node) bool {
		if cl, ok := n.(*ast.CompositeLit); ok && table == nil {
			if mt, ok := cl.Type.(*ast.MapType); ok {
				if id, ok := mt.Value.(*ast.Ident); ok && id.Name == "functionEntry" {
					table = cl
				}
			}
		}
		return true
	})
	if table == nil {
		die("functionTable literal not found")
	}
	helpers := oneLineFuncs(funcs)
	type entry struct{ key, text string }
	var entries []entry
	for _, e := range table.Elts {
		kv := e.(*ast.KeyValueExpr)
		key, _ := strconv.Unquote(kv.Key.(*ast.BasicLit).Value)
		name, handler, hasExp := "", "", "false"
		var specs []string
		for _, f := range kv.Value.(*ast.CompositeLit).Elts {
			fkv := f.(*ast.KeyValueExpr)
			switch fkv.Key.(*ast.Ident).Name {
			case "name":
				name, _ = strconv.Unquote(fkv.Value.(*ast.BasicLit).Value)
			case "handler":
				handler = fkv.Value.(*ast.Ident).Name
			case "hasExpRef":
				hasExp = fkv.Value.(*ast.Ident).Name
			case "arguments":
				argsLit, ok := expandCalls(fkv.Value, helpers, 0).(*ast.CompositeLit)
				if !ok {
					die("arguments of %s: not a literal (after expanding one-line helpers)", key)
				}
				for _, a0 := range argsLit.Elts {
					a := expandCalls(a0, helpers, 0)
					var types []string
					variadic := "false"
					for _, af := range a.(*ast.CompositeLit).Elts {
						akv := af.(*ast.KeyValueExpr)
						switch akv.Key.(*ast.Ident).Name {
						case "types":
							tl, ok := expandCalls(akv.Value, helpers, 0).(*ast.CompositeLit)
							if !ok {
								die("types of an argument of %s: not a literal", key)
							}
							for _, t := range tl.Elts {
								types = append(types, t.(*ast.Ident).Name)
							}
						case "variadic":
							variadic = akv.Value.(*ast.Ident).Name
						}
					}
					specs = append(specs, fmt.Sprintf("ArgSpec [%s] %s", strings.Join(types, "; "), variadic))
				}
			}
		}
		entries = append(entries, entry{key, fmt.Sprintf("  (* %s *) FunctionEntry %s %s\n     [%s] (* %s *) %s %s",
			key, coqStr(key), coqStr(name), strings.Join(specs, "; "), handler, coqStr(handler), hasExp)})
	}
	sort.Slice(entries, func(i, j int) bool { return entries[i].key < entries[j].key })
	p("Definition function_table : list functionEntry :=\n  [\n")
	for i, e := range entries {
		if i > 0 {
			p(";\n")
		}
		p("%s", e.text)
	}
	p("\n  ].\n")
	fmt.Print(b.String())
}

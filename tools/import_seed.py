#!/usr/bin/env python3
"""import_seed.py Cxx mK — confirms a sub-agent's seeded change in a scratch
worktree (builds, existing tests pass, demonstration fails with the change and
passes without it) and stores it as /verif/seeded/<Cxx>-<mK>/."""
import json, os, shutil, subprocess, sys
V = os.path.dirname(os.path.dirname(os.path.abspath(__file__)))
pid, mk = sys.argv[1], sys.argv[2]
out = "/tmp/out-%s" % pid
wt = "/tmp/confirm-%s-%s" % (pid, mk)
env = dict(os.environ, GOFLAGS="-mod=mod", GOPROXY="off", GOSUMDB="off", GOTOOLCHAIN="local")
def sh(cmd, cwd=None, check=True):
    r = subprocess.run(cmd, shell=True, cwd=cwd, env=env, stdout=subprocess.PIPE, stderr=subprocess.STDOUT, text=True)
    if check and r.returncode != 0:
        print("FAILED:", cmd); print(r.stdout[-3000:]); sys.exit(1)
    return r
patch = os.path.join(out, mk + ".diff")
if not os.path.exists(patch) or os.path.getsize(patch) == 0:
    print("no patch", patch); sys.exit(1)
sh("git -C /repo worktree remove --force %s" % wt, check=False)
sh("git -C /repo worktree add -q --detach %s HEAD" % wt)
try:
    # only library sources may be touched
    files = sh("git -C %s apply --numstat %s" % (wt, patch)).stdout.split()
    touched = [f for f in files if "/" in f or f.endswith(".go")]
    for f in touched:
        if f.endswith("_test.go") or os.path.basename(f).startswith("verif_") or f.startswith("compliance/"):
            print("patch touches", f); sys.exit(1)
    demo_go = os.path.join(out, mk + "_demo_test.go")
    demo_sh = os.path.join(out, mk + "_demo.sh")
    def run_demo():
        if os.path.exists(demo_go):
            shutil.copy(demo_go, os.path.join(wt, "zz_seeded_demo_test.go"))
            r = sh("go test -run TestSeededDemo -vet=off -count=1 .", cwd=wt, check=False)
            os.remove(os.path.join(wt, "zz_seeded_demo_test.go"))
            return r.returncode, r.stdout[-1500:]
        r = sh("bash %s %s" % (demo_sh, wt), check=False)
        return r.returncode, r.stdout[-1500:]
    clean_rc, clean_out = run_demo()
    if clean_rc != 0:
        print("demonstration does not pass on the clean tree"); print(clean_out); sys.exit(1)
    sh("git -C %s apply %s" % (wt, patch))
    sh("go build ./... && go vet -tags verif . >/dev/null 2>&1; go build -tags verif ./...", cwd=wt)
    sh("go test -vet=off -count=1 ./...", cwd=wt)
    sh("go test -vet=off -count=1 ./...", cwd=os.path.join(wt, "internal/testify"))
    rc, o = run_demo()
    if rc == 0:
        print("demonstration does not fail with the change"); sys.exit(1)
    sid = "%s-%s" % (pid, mk)
    d = os.path.join(V, "seeded", sid)
    os.makedirs(d, exist_ok=True)
    shutil.copy(patch, os.path.join(d, "patch.diff"))
    if os.path.exists(demo_go):
        shutil.copy(demo_go, os.path.join(d, "demo_test.go"))
        demo = "demo_test.go: copy into the library directory, go test -run TestSeededDemo . (fails with the change, passes without)"
    else:
        shutil.copy(demo_sh, os.path.join(d, "demo.sh"))
        demo = "demo.sh <library dir>: exits 1 with the change, 0 without"
    m = json.load(open(os.path.join(out, mk + ".json")))
    meta = {"id": sid, "breaks_property": pid, "origin": "written by a sub-agent given only the property text and a scratch worktree",
            "summary": m.get("summary"), "mechanism": m.get("mechanism"), "needs": m.get("trigger"), "files": m.get("files"),
            "demonstration": demo, "demo_output_with_change": o[-600:],
            "confirmed": "applies to HEAD, builds (with and without -tags verif), existing tests of both modules pass, demonstration fails with the change and passes without it (scratch worktree, removed)",
            "ran": "applied with git -C /repo apply, ran the checks, undone with git -C /repo checkout -- ."}
    json.dump(meta, open(os.path.join(d, "meta.json"), "w"), indent=1)
    print("OK", sid, "-", m.get("summary"))
finally:
    sh("git -C /repo worktree remove --force %s" % wt, check=False)
